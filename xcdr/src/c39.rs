//! C39 — compatible type evolution preserves common members; assignability is reflexive and
//! agrees with whether such decoding succeeds.
//!
//! Pairs (writer type W, reader type R) are derived from a random base type by evolution
//! operators that XTypes 1.3 §7.2.4.4.2 (structure types) clearly allows for the extensibility
//! kind, plus non-assignable controls. Oracle:
//!   * R is-assignable-from R, W is-assignable-from W (reflexive);
//!   * evolved pair under the generated TypeConsistencyEnforcementQosPolicy: dust-dds's
//!     `CompleteTypeObject::is_assignable_from_w_type_consistency` (the function discovery uses)
//!     must say true;
//!   * whenever it says true (evolved pair or control): decoding W's sample with R succeeds, common
//!     members (same member id) carry W's values, members only in R are default/absent.

use crate::c09::{describe, generic_shape};
use crate::features::{self, Feat};
use crate::harness::*;
use crate::lower::*;
use crate::rxcdr::{self, ALL_ENC, Enc, Policy, Ver};
use crate::types::*;
use dust_dds::infrastructure::qos_policy::{TypeConsistencyEnforcementQosPolicy, TypeConsistencyKind};
use dust_dds::xtypes::type_object::CompleteTypeObject;
use proptest::prelude::*;
use serde::{Deserialize, Serialize};
use serde_json::json;
use vcore::{Ctx, Meta, Report};

#[derive(Clone, Debug, Serialize, Deserialize)]
pub struct Case {
    pub w: Ty,
    pub r: Ty,
    pub vals: Vec<Val>,
    pub ignore_sequence_bounds: bool,
    pub ignore_string_bounds: bool,
    pub ignore_member_names: bool,
    /// operator that produced the pair
    pub op: String,
    /// XTypes says R is-assignable-from W
    pub expect_assignable: bool,
    /// nested type evolved: only XCDR2 delimits nested appendable types (strong assignability)
    pub xcdr2_only: bool,
}

#[derive(Clone, Debug)]
pub struct GenCase {
    pub base: StructDef,
    pub tape: Vec<u32>,
    pub val_tapes: Vec<Vec<u32>>,
}

fn extra_member(k: usize, id: u32, w: u32, allow_optional: bool) -> Member {
    let ty = match w % 9 {
        0 => Ty::Prim(Prim::I32),
        1 => Ty::Prim(Prim::U8),
        2 => Ty::Prim(Prim::F64),
        3 => Ty::Str(None),
        4 => Ty::Str(Some(7)),
        5 => Ty::Seq(Box::new(Ty::Prim(Prim::I16)), None),
        6 => Ty::Enum(EnumDef { name: format!("EX{}", w % 50), bit_bound: [8u8, 16, 32][(w / 9) as usize % 3], labels: vec![("A".into(), 1 + (w / 27) as i32 % 3), ("B".into(), 7)] }),
        7 => Ty::Array(Box::new(Ty::Prim(Prim::U16)), 3),
        _ => Ty::Prim(Prim::Bool),
    };
    Member { name: format!("x{k}_{id}"), id, ty, key: false, optional: allow_optional && (w / 100) % 4 == 0, must_understand: false }
}

fn fresh_id(s: &StructDef, k: u32) -> u32 {
    s.members.iter().map(|m| m.id).max().unwrap_or(0) + 1 + k
}

/// appendable: members appended at the end (ids continue the index sequence)
fn append_members(s: &StructDef, n: usize, w: u32) -> StructDef {
    let mut out = s.clone();
    for k in 0..n {
        let id = out.members.len() as u32;
        out.members.push(extra_member(k, id, w.rotate_left(k as u32 * 5), false));
    }
    out
}

/// mutable: drop some removable members, add some with fresh ids, optionally reorder
fn mutate_mutable(s: &StructDef, w: u32, salt: u32, keep: u32) -> StructDef {
    let mut out = s.clone();
    let removable: Vec<u32> = s.members.iter().filter(|m| !m.key && !m.must_understand && m.id != keep).map(|m| m.id).collect();
    for (i, id) in removable.iter().enumerate() {
        if (w >> (i % 16)) & 1 == 1 && salt % 2 == 0 {
            out.members.retain(|m| m.id != *id);
        }
    }
    let n_add = (w >> 20) as usize % 3;
    for k in 0..n_add {
        // ids distinct between the two sides: salt separates them
        let id = fresh_id(s, 10 * salt + k as u32);
        out.members.push(extra_member(k, id, w.rotate_left(7 + k as u32), true));
    }
    if (w >> 24) % 2 == 1 {
        out.members.reverse();
    }
    if (w >> 25) % 3 == 1 && out.members.len() > 2 {
        out.members.swap(0, 1);
    }
    out
}

pub fn realize(g: &GenCase, vc: &ValCfg, allowed: &features::Allowed) -> Case {
    let mut t = Tape::new(&g.tape);
    let op = t.next() % 10;
    let w0 = t.next();
    let w1 = t.next();
    // clean universe: no shape with a confirmed C09/C10 finding (those are reported there)
    let base_ty = features::sanitize(&Ty::Struct(Box::new(g.base.clone())), allowed);
    let Ty::Struct(mut base) = base_ty else { unreachable!() };
    // optional members of non-mutable structs are XCDR1-only trouble; evolution is checked in both
    // versions for top-level appendable types, so keep the base free of them
    let mut xcdr2_only = false;
    let mut expect = true;
    let (wt, rt, opname): (StructDef, StructDef, String);
    match op {
        0 | 1 => {
            base.ext = Ext::Appendable;
            renumber(&mut base);
            let n = 1 + (w0 as usize % 3);
            if op == 0 {
                (wt, rt, opname) = ((*base).clone(), append_members(&base, n, w1), "appendable:reader-has-appended-members".into());
            } else {
                (wt, rt, opname) = (append_members(&base, n, w1), (*base).clone(), "appendable:writer-has-appended-members".into());
            }
        }
        2 | 3 | 4 => {
            base.ext = Ext::Mutable;
            let keep = base.members[w0 as usize % base.members.len()].id;
            (wt, rt, opname) = (mutate_mutable(&base, w0, 1, keep), mutate_mutable(&base, w1, 2, keep), "mutable:members-added-removed-reordered".into());
        }
        5 | 6 => {
            // nested evolution: a member of struct type (made appendable or mutable) evolves
            if base.ext == Ext::Final {
                base.ext = Ext::Appendable;
                renumber(&mut base);
            }
            let idx = base.members.iter().position(|m| matches!(m.ty, Ty::Struct(_)));
            let idx = match idx {
                Some(i) => i,
                None => {
                    let id = if base.ext == Ext::Mutable { fresh_id(&base, 0) } else { base.members.len() as u32 };
                    let inner = StructDef { name: "NestedEvolving".into(), ext: Ext::Appendable, members: vec![extra_member(0, 0, w0, false), extra_member(1, 1, w1, false)] };
                    base.members.push(Member { name: "nested".into(), id, ty: Ty::Struct(Box::new(inner)), key: false, optional: false, must_understand: false });
                    base.members.len() - 1
                }
            };
            let Ty::Struct(inner) = &base.members[idx].ty else { unreachable!() };
            let mut inner = (**inner).clone();
            base.members[idx].key = false;
            let (iw, ir);
            if op == 5 {
                inner.ext = Ext::Appendable;
                renumber(&mut inner);
                let n = 1 + (w0 as usize % 2);
                if w1 % 2 == 0 {
                    (iw, ir) = (inner.clone(), append_members(&inner, n, w1));
                    opname = "nested-appendable:reader-has-appended-members".into();
                } else {
                    (iw, ir) = (append_members(&inner, n, w1), inner.clone());
                    opname = "nested-appendable:writer-has-appended-members".into();
                }
            } else {
                inner.ext = Ext::Mutable;
                let keep = inner.members[w0 as usize % inner.members.len()].id;
                (iw, ir) = (mutate_mutable(&inner, w0, 1, keep), mutate_mutable(&inner, w1, 2, keep));
                opname = "nested-mutable:members-added-removed-reordered".into();
            }
            let mut wtt = (*base).clone();
            let mut rtt = (*base).clone();
            wtt.members[idx].ty = Ty::Struct(Box::new(iw));
            rtt.members[idx].ty = Ty::Struct(Box::new(ir));
            (wt, rt) = (wtt, rtt);
            xcdr2_only = true;
        }
        7 => {
            // control: a common member changes its type (primitive kind / string)
            expect = false;
            if base.ext == Ext::Final {
                base.ext = Ext::Appendable;
                renumber(&mut base);
            }
            let mut rtt = (*base).clone();
            let i = w0 as usize % rtt.members.len();
            rtt.members[i].ty = match &rtt.members[i].ty {
                Ty::Prim(Prim::I32) => Ty::Str(None),
                Ty::Prim(_) => Ty::Prim(Prim::I32).clone(),
                Ty::Str(_) => Ty::Prim(Prim::F64),
                _ => Ty::Prim(Prim::Char8),
            };
            if rtt.members[i].ty == base.members[i].ty {
                rtt.members[i].ty = Ty::Prim(Prim::U64);
            }
            rtt.members[i].key = false;
            let mut wtt = (*base).clone();
            wtt.members[i].key = false;
            (wt, rt, opname) = (wtt, rtt, "control:member-type-changed".into());
        }
        8 => {
            // control: a nested struct member is replaced by a struct with different member types
            expect = false;
            if base.ext == Ext::Final {
                base.ext = Ext::Appendable;
                renumber(&mut base);
            }
            let id = if base.ext == Ext::Mutable { fresh_id(&base, 0) } else { base.members.len() as u32 };
            let a = StructDef { name: "NestedChanged".into(), ext: Ext::Final, members: vec![crate::golden::mem("p", 0, Ty::Prim(Prim::I32)), crate::golden::mem("q", 1, Ty::Prim(Prim::I32))] };
            let b = StructDef { name: "NestedChanged".into(), ext: Ext::Final, members: vec![crate::golden::mem("p", 0, Ty::Str(None)), crate::golden::mem("q", 1, Ty::Prim(Prim::F64))] };
            let mut wtt = (*base).clone();
            let mut rtt = (*base).clone();
            wtt.members.push(Member { name: "nested".into(), id, ty: Ty::Struct(Box::new(a)), key: false, optional: false, must_understand: false });
            rtt.members.push(Member { name: "nested".into(), id, ty: Ty::Struct(Box::new(b)), key: false, optional: false, must_understand: false });
            (wt, rt, opname) = (wtt, rtt, "control:nested-struct-members-changed".into());
        }
        _ => {
            // control: final types with different member counts / different extensibility
            expect = false;
            let mut wtt = (*base).clone();
            let rtt: StructDef;
            if w0 % 2 == 0 {
                wtt.ext = Ext::Final;
                renumber(&mut wtt);
                rtt = append_members(&wtt, 1, w1);
                opname = "control:final-with-extra-member".into();
            } else {
                wtt.ext = Ext::Appendable;
                renumber(&mut wtt);
                let mut m = wtt.clone();
                m.ext = Ext::Mutable;
                rtt = m;
                opname = "control:extensibility-changed".into();
            }
            (wt, rt) = (wtt, rtt);
        }
    }
    let w = Ty::Struct(Box::new(wt));
    let r = Ty::Struct(Box::new(rt));
    let vals = g.val_tapes.iter().map(|tp| make_value(&w, tp, vc)).collect();
    let p = t.next();
    Case {
        w,
        r,
        vals,
        ignore_sequence_bounds: p & 1 == 1,
        ignore_string_bounds: p & 2 == 2,
        ignore_member_names: p & 4 == 4,
        op: opname,
        expect_assignable: expect,
        xcdr2_only,
    }
}

/// final/appendable types: member id = index (what the derive macro and the XML loader assign)
fn renumber(s: &mut StructDef) {
    if s.ext != Ext::Mutable {
        for (i, m) in s.members.iter_mut().enumerate() {
            m.id = i as u32;
        }
    }
}

pub fn case_strategy(gc: GenCfg) -> BoxedStrategy<GenCase> {
    (struct_strategy(gc, gc.depth.saturating_sub(1), true), tape_strategy(), proptest::collection::vec(tape_strategy(), 1..=2))
        .prop_map(|(base, tape, val_tapes)| GenCase { base, tape, val_tapes })
        .boxed()
}

// ------------------------------------------------------------------------------------------
// expected reader-side value

#[derive(Debug)]
enum Proj {
    Exact(Val),
    DefaultOrAbsent,
    Struct(Vec<Proj>),
}

/// project a value of writer type `wt` onto reader type `rt` (same member id = common member)
fn project(wt: &Ty, rt: &Ty, v: &Val) -> Proj {
    match (wt, rt, v) {
        (Ty::Struct(ws), Ty::Struct(rs), Val::Struct(ms)) if ws != rs => Proj::Struct(
            rs.members
                .iter()
                .map(|rm| match ws.members.iter().position(|wm| wm.id == rm.id) {
                    Some(i) => match &ms[i] {
                        Some(mv) => project(&ws.members[i].ty, &rm.ty, mv),
                        None => Proj::DefaultOrAbsent,
                    },
                    None => Proj::DefaultOrAbsent,
                })
                .collect(),
        ),
        _ => Proj::Exact(v.clone()),
    }
}

fn check(rt: &Ty, p: &Proj, actual: Option<&Val>, path: &str) -> Result<(), String> {
    match (p, actual) {
        (Proj::Exact(v), Some(a)) => match diff(rt, v, a) {
            None => Ok(()),
            Some(d) => Err(format!("common member {path}{d}")),
        },
        (Proj::Exact(_), None) => Err(format!("common member {path} is missing in the decoded sample")),
        (Proj::DefaultOrAbsent, None) => Ok(()),
        (Proj::DefaultOrAbsent, Some(a)) => {
            let d = default_val(rt);
            let ok = match (rt, a) {
                // unions have no DynamicData-level default representation here: accept any absent/unset form
                (Ty::Union(_), _) => true,
                _ => diff(rt, &d, a).is_none(),
            };
            if ok { Ok(()) } else { Err(format!("member {path} exists only in the reader type but decoded to the non-default value {}", short(a))) }
        }
        (Proj::Struct(ps), Some(Val::Struct(ms))) => {
            let Ty::Struct(rs) = rt else { return Err("shape".into()) };
            for (i, m) in rs.members.iter().enumerate() {
                check(&m.ty, &ps[i], ms.get(i).and_then(|x| x.as_ref()), &format!("{path}.{}", m.name))?;
            }
            Ok(())
        }
        (Proj::Struct(_), _) => Err(format!("member {path} is missing or not a struct")),
    }
}

fn policy_of(c: &Case) -> TypeConsistencyEnforcementQosPolicy {
    TypeConsistencyEnforcementQosPolicy {
        kind: TypeConsistencyKind::AllowTypeCoercion,
        ignore_sequence_bounds: c.ignore_sequence_bounds,
        ignore_string_bounds: c.ignore_string_bounds,
        ignore_member_names: c.ignore_member_names,
        prevent_type_widening: false,
        force_type_validation: false,
    }
}

fn op_class(op: &str) -> String {
    op.to_string()
}

pub fn eval_case(c: &Case, allowed: &features::Allowed, fd: i32) -> Outcome {
    let mut o = Outcome { nontrivial: true, ..Default::default() };
    o.class(format!("op:{}", op_class(&c.op)));
    for cl in type_classes(&c.w) {
        if cl.starts_with("struct-") || cl.starts_with("agg-depth") {
            o.class(format!("writer:{cl}"));
        }
    }
    let (lw, lr) = match guarded(|| (lower(&c.w), lower(&c.r))) {
        Caught::Ok(x) => x,
        Caught::Panic(_, s) => {
            o.fail(format!("harness:lower:{s}"), "type lowering panicked");
            return o;
        }
    };
    // ---- assignability
    mark(fd, "assignability");
    let pol = policy_of(c);
    let verdict = guarded(|| {
        let tw = CompleteTypeObject::from(lw.dt);
        let tr = CompleteTypeObject::from(lr.dt);
        // second, independent lowering of the same reader type: reflexivity must not depend on object identity
        let tr2 = CompleteTypeObject::from(lower_type(&c.r));
        (
            tr.is_assignable_from_w_type_consistency(&tr2, &pol),
            tw.is_assignable_from_w_type_consistency(&tw, &pol),
            tr.is_assignable_from_w_type_consistency(&tw, &pol),
            tr.is_assignable_from(&tw),
        )
    });
    o.evaluations += 1;
    let (refl_r, refl_w, assignable, assignable_default) = match verdict {
        Caught::Ok(x) => x,
        Caught::Panic(true, s) => {
            o.fail(format!("C39:panic:{s}"), format!("assignability check panicked: {s}; W {}; R {}", describe(&c.w), describe(&c.r)));
            return o;
        }
        Caught::Panic(false, s) => {
            o.fail(format!("harness:panic:{s}"), "panic outside dust-dds");
            return o;
        }
    };
    if !refl_r || !refl_w {
        o.fail("C39:not-reflexive", format!("a type is not assignable from itself (R:{refl_r} W:{refl_w}); R {}", describe(&c.r)));
    }
    o.class(format!("dust-says-assignable:{assignable}"));
    if c.expect_assignable && !assignable {
        o.fail(
            format!("C39:not-assignable:{}", c.op),
            format!(
                "R is-assignable-from W by XTypes 1.3 7.2.4.4.2 ({}) under the policy ignore_sequence_bounds={} ignore_string_bounds={} ignore_member_names={} but dust-dds says not assignable (default policy: {assignable_default}); W {}; R {}",
                c.op,
                c.ignore_sequence_bounds,
                c.ignore_string_bounds,
                c.ignore_member_names,
                describe(&c.w),
                describe(&c.r)
            ),
        );
    }
    if !assignable {
        o.class("nothing-demanded(not-assignable)");
        return o;
    }
    // ---- decoding W's samples with R
    for (vi, val) in c.vals.iter().enumerate() {
        let data = match guarded(|| lower_data(&c.w, &lw, val)) {
            Caught::Ok(d) => d,
            Caught::Panic(_, s) => {
                o.fail(format!("harness:lower-data:{s}"), "value lowering panicked");
                continue;
            }
        };
        let expected = project(&c.w, &c.r, val);
        for (ei, enc) in ALL_ENC.into_iter().enumerate() {
            if c.xcdr2_only && enc.ver == Ver::V1 {
                continue;
            }
            // shapes with a confirmed codec finding for this encoding are the business of C09/C10
            let feats_w = features::scan(&c.w, val, enc);
            if features::blame(&feats_w, allowed).is_some() || has_feature_type(&c.r, enc, allowed) {
                o.class("skipped:encoding-with-known-codec-finding");
                continue;
            }
            mark(fd, &format!("{vi} {ei}"));
            o.evaluations += 1;
            let mut streams: Vec<(&str, Vec<u8>)> = vec![];
            match dust_serialize(&data, enc) {
                Caught::Ok(Ok(b)) => streams.push(("dust-dds writer", b)),
                _ => {
                    o.class("writer-side-serialize-failed(C09)");
                }
            }
            if let Ok((b, _)) = rxcdr::encode(&c.w, val, enc, Policy { v1_rtps_sentinel: true, ..Policy::SPEC }) {
                if streams.iter().all(|(_, s)| *s != b) {
                    streams.push(("R-XCDR writer", b));
                }
            }
            for (who, bytes) in streams {
                // one signature per root-cause family: operator family (+ encoding version) for evolved
                // pairs, the control kind for controls that dust-dds wrongly declares assignable
                let family = family_of(c, enc, &bytes);
                let sig = if c.expect_assignable {
                    format!("C39:evolved-sample-not-decoded:{family}:{}", enc.vname())
                } else {
                    format!("C39:declared-assignable-but-not-decodable:{}", c.op)
                };
                let ctxt = |what: String| {
                    format!(
                        "{what}; operator {}; {} sample from the {who}; W {}; R {}; value {}; bytes {}",
                        c.op,
                        enc.name(),
                        describe(&c.w),
                        describe(&c.r),
                        short(val),
                        hex(&bytes)
                    )
                };
                let kind = if c.expect_assignable { "evolved" } else { "control" };
                match dust_deserialize(lr.dt, &bytes) {
                    Caught::Panic(true, s) => o.fail(format!("C39:panic:{s}"), ctxt(format!("decoding with the reader type panicked: {s}"))),
                    Caught::Panic(false, s) => o.fail(format!("harness:panic:{s}"), "panic outside dust-dds"),
                    Caught::Ok(Err(e)) => o.fail(
                        sig.clone(),
                        ctxt(format!("dust-dds declares R assignable from W ({kind} pair) but decoding W's sample with R fails with {e}")),
                    ),
                    Caught::Ok(Ok(d2)) => match read_data(&c.r, &d2) {
                        Err(e) => o.fail(
                            sig.clone(),
                            ctxt(format!("dust-dds declares R assignable from W ({kind} pair) but decoding W's sample with R gives malformed data ({e})")),
                        ),
                        Ok(back) => {
                            if let Err(e) = check(&c.r, &expected, Some(&back), "") {
                                o.fail(
                                    sig.clone(),
                                    ctxt(format!("dust-dds declares R assignable from W ({kind} pair) but the decoded sample is wrong: {e}")),
                                );
                            }
                        }
                    },
                }
            }
        }
    }
    o
}

/// Root-cause family of an evolved pair: the operator family, and for "reader type = writer type +
/// appended members" whether the first appended member can be (mis)read from the 1..3 padding bytes that
/// end the writer's sample (a 1-byte element with any padding, a 2-byte element with >= 2 bytes of padding,
/// an XCDR2 optional flag) — the listed reader finding — or cannot (everything else: the reader must then
/// run out of data and leave the appended members at their defaults).
fn family_of(c: &Case, enc: Enc, bytes: &[u8]) -> String {
    let family = c.op.split(':').next().unwrap_or("").to_string();
    if c.op != "appendable:reader-has-appended-members" {
        return family;
    }
    let (Ty::Struct(w), Ty::Struct(r)) = (&c.w, &c.r) else { return family };
    let Some(first) = r.members.get(w.members.len()) else { return family };
    // padding bytes recorded in the encapsulation options
    let pad = if bytes.len() >= 4 { (bytes[3] & 3) as usize } else { 3 };
    fn lead(t: &Ty) -> usize {
        match t {
            Ty::Prim(p) => p.size(),
            Ty::Enum(e) => {
                if e.bit_bound <= 8 {
                    1
                } else if e.bit_bound <= 16 {
                    2
                } else {
                    4
                }
            }
            Ty::Str(_) | Ty::WStr(_) | Ty::Seq(..) => 4,
            Ty::Array(e, _) => lead(e),
            Ty::Struct(s) => match s.ext {
                Ext::Final => s.members.first().map(|m| if m.optional { 1 } else { lead(&m.ty) }).unwrap_or(0),
                _ => 4,
            },
            Ty::Union(u) => match u.ext {
                Ext::Final => match u.disc {
                    Prim::I8 | Prim::U8 | Prim::Bool | Prim::Byte | Prim::Char8 => 1,
                    Prim::I16 | Prim::U16 => 2,
                    _ => 4,
                },
                _ => 4,
            },
        }
    }
    let l = if first.optional { if enc.ver == Ver::V2 { 1 } else { 4 } } else { lead(&first.ty) };
    let fits = pad > 0 && (l <= 1 || (l == 2 && pad >= 2));
    format!("{family}-reader-longer:{}", if fits { "first-appended-member-fits-the-padding" } else { "first-appended-member-beyond-the-padding" })
}

/// type-only features of the reader type (no value available)
fn has_feature_type(r: &Ty, enc: Enc, allowed: &features::Allowed) -> bool {
    let dv = default_val(r);
    let f = features::scan(r, &dv, enc);
    f.iter().any(|x| allowed.has(*x) && *x != Feat::V2MutableDheaderIgnored)
        || (enc.ver == Ver::V2 && r.any(&|t| matches!(t.ext(), Some(Ext::Mutable))) && nested_mutable(r) && allowed.has(Feat::V2MutableDheaderIgnored))
}

fn nested_mutable(t: &Ty) -> bool {
    let mut first = true;
    let mut r = false;
    t.visit(&mut |x| {
        if first {
            first = false;
        } else if matches!(x.ext(), Some(Ext::Mutable)) {
            r = true;
        }
    });
    r
}

pub fn on_death(c: &Case, d: &ChildDeath) -> Outcome {
    let mut o = Outcome { evaluations: 1, nontrivial: true, ..Default::default() };
    let mut it = d.marker.split_whitespace();
    let _vi = it.next();
    let ei: usize = it.next().and_then(|x| x.parse().ok()).unwrap_or(0);
    let enc = ALL_ENC[ei.min(3)];
    let family = family_of(c, enc, &[]);
    o.fail(
        if c.expect_assignable { format!("C39:evolved-sample-not-decoded:{family}:{}", enc.vname()) } else { format!("C39:declared-assignable-but-not-decodable:{}", c.op) },
        format!("evaluator process died ({}) at '{}' while decoding W's sample with R (giant allocation / CPU allowance); W {}; R {}", d.exit, d.marker, describe(&c.w), describe(&c.r)),
    );
    o
}

pub const RULE: &str = "every case is a (W, R) pair differing by an evolution operator or control (non-trivial by construction); distinct by case hash; evaluations = assignability checks + decoded (value x encoding x writer) samples";

pub fn main(ctx: &Ctx) -> ! {
    let thorough = ctx.tier == vcore::Tier::Thorough;
    let mut gc = GenCfg::new(thorough);
    gc.depth = if thorough { 4 } else { 3 };
    gc.big_ids = false;
    gc.f128 = false;
    let mut vc = ValCfg::new(thorough);
    vc.latin1 = false;
    vc.thorough = false;
    let allowed = features::Allowed::for_property("C39");
    let mut report = Report::default();
    let meta = Meta {
        rule: RULE,
        assumptions: &[
            "assignability API = CompleteTypeObject::from(DynamicType) + is_assignable_from_w_type_consistency (what discovery_methods.rs calls)",
            "policy: kind=ALLOW_TYPE_COERCION, prevent_type_widening=false; ignore_* flags generated; member names, bounds and ids of common members are preserved so every flag combination allows the pair",
            "only evolutions XTypes 1.3 7.2.4.4.2 clearly allows; nested evolutions are decoded in XCDR2 only (XCDR1 does not delimit nested appendable types)",
            "base types avoid the shapes with confirmed C09/C10 codec findings; members only in R may come back absent or as the default value",
        ],
        nontrivial_floor: ctx.pick(300, 3000),
    };
    if let Some(path) = &ctx.replay {
        let v = vcore::load_replay(path);
        let case: Case = serde_json::from_value(v).unwrap_or_else(|e| {
            eprintln!("replay file does not hold a C39 case: {e}");
            std::process::exit(2)
        });
        replay_case(&mut report, &case, &|c, fd| eval_case(c, &allowed, fd), &on_death);
        vcore::finish(ctx, meta, report);
    }
    let strat = case_strategy(gc);
    campaign(
        ctx,
        CampaignCfg { stream: "c39", cases: ctx.pick(8_000, 150_000), batch: 256, max_shrink: ctx.pick(600, 3000) },
        &strat,
        &mut report,
        &|g: &GenCase| realize(g, &vc, &allowed),
        &|c, fd| eval_case(c, &allowed, fd),
        &on_death,
        &|c| json!({"op": c.op, "writer": generic_shape(&c.w), "reader": generic_shape(&c.r)}),
    );
    vcore::finish(ctx, meta, report)
}
