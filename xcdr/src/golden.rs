//! Oracle self-test of R-XCDR: golden byte vectors transcribed from the repository's own
//! serializer/deserializer unit tests (dds/src/xtypes/{serializer,deserializer}.rs; one is a
//! capture from Cyclone DDS, the TypeLookup/TypeInformation ones are the interoperable built-in
//! XTypes types). R-XCDR must reproduce every vector byte for byte (under the stated encoder
//! policy) and decode it back to the value. If this fails the check is inconclusive (exit 2).
//!
//! Vectors of the repository that embed a behaviour this harness reports as a defect (LC 5 on a
//! sequence<uint32>, LC 6/7 with a detached NEXTINT) or that are internally inconsistent (wrong
//! header id / DHEADER / trailing junk in decode-only tests) are deliberately not used.

use crate::rxcdr::*;
use crate::types::*;

pub fn mem(name: &str, id: u32, ty: Ty) -> Member {
    Member { name: name.into(), id, ty, key: false, optional: false, must_understand: false }
}
pub fn keym(name: &str, id: u32, ty: Ty) -> Member {
    Member { name: name.into(), id, ty, key: true, optional: false, must_understand: true }
}
pub fn st(name: &str, ext: Ext, members: Vec<Member>) -> Ty {
    Ty::Struct(Box::new(StructDef { name: name.into(), ext, members }))
}
pub fn p(x: Prim) -> Ty {
    Ty::Prim(x)
}
pub fn arr(t: Ty, n: u32) -> Ty {
    Ty::Array(Box::new(t), n)
}
pub fn seq(t: Ty) -> Ty {
    Ty::Seq(Box::new(t), None)
}
pub fn sv(v: Vec<Val>) -> Val {
    Val::Struct(v.into_iter().map(Some).collect())
}
pub fn bytes(v: &[u8]) -> Val {
    Val::List(v.iter().map(|b| Val::U8(*b)).collect())
}
pub fn s(x: &str) -> Val {
    Val::Str(x.into())
}

pub struct Vector {
    pub name: &'static str,
    pub ty: Ty,
    pub val: Val,
    /// None = bare (no encapsulation header): (version, big endian)
    pub enc: Result<Enc, (Ver, bool)>,
    pub pol: Policy,
    pub bytes: Vec<u8>,
}

const LE1: Enc = Enc { ver: Ver::V1, be: false };
const BE1: Enc = Enc { ver: Ver::V1, be: true };
const LE2: Enc = Enc { ver: Ver::V2, be: false };
const BE2: Enc = Enc { ver: Ver::V2, be: true };

/// the choices dust-dds makes where the standard leaves freedom (used for the repository's own vectors)
pub const DUST: Policy =
    Policy { order_by_id: true, lc_by_size_any: true, share_nextint: true, v1_len_padded: false, v1_rtps_sentinel: true, v1_origin_sticky: true };

pub fn vectors() -> Vec<Vector> {
    let mut v: Vec<Vector> = vec![];
    let mut add = |name: &'static str, ty: &Ty, val: &Val, enc: Enc, pol: Policy, b: &[u8]| {
        v.push(Vector { name, ty: ty.clone(), val: val.clone(), enc: Ok(enc), pol, bytes: b.to_vec() })
    };

    // 1. serialize_basic_types_struct
    let basic = st(
        "BasicTypes",
        Ext::Final,
        vec![
            mem("f1", 0, p(Prim::Bool)),
            mem("f2", 1, p(Prim::I8)),
            mem("f3", 2, p(Prim::I16)),
            mem("f4", 3, p(Prim::I32)),
            mem("f5", 4, p(Prim::I64)),
            mem("f6", 5, p(Prim::U8)),
            mem("f7", 6, p(Prim::U16)),
            mem("f8", 7, p(Prim::U32)),
            mem("f9", 8, p(Prim::U64)),
            mem("f10", 9, p(Prim::F32)),
            mem("f11", 10, p(Prim::F64)),
            mem("f12", 11, p(Prim::Char8)),
        ],
    );
    let basic_v = sv(vec![
        Val::Bool(true),
        Val::I8(2),
        Val::I16(3),
        Val::I32(4),
        Val::I64(5),
        Val::U8(6),
        Val::U16(7),
        Val::U32(8),
        Val::U64(9),
        Val::F32(1.0f32.to_bits()),
        Val::F64(1.0f64.to_bits()),
        Val::U8(b'a'),
    ]);
    add("basic/xcdr1-be", &basic, &basic_v, BE1, Policy::SPEC, &[
        0x00, 0x00, 0x00, 0x03, 1, 2, 0, 3, 0, 0, 0, 4, 0, 0, 0, 0, 0, 0, 0, 5, 6, 0, 0, 7, 0, 0, 0, 8, 0, 0, 0, 0, 0, 0, 0, 9, 0x3F, 0x80, 0x00, 0x00, 0, 0,
        0, 0, 0x3F, 0xF0, 0x00, 0x00, 0x00, 0x00, 0x00, 0x00, b'a', 0, 0, 0,
    ]);
    add("basic/xcdr1-le", &basic, &basic_v, LE1, Policy::SPEC, &[
        0x00, 0x01, 0x00, 0x03, 1, 2, 3, 0, 4, 0, 0, 0, 5, 0, 0, 0, 0, 0, 0, 0, 6, 0, 7, 0, 8, 0, 0, 0, 9, 0, 0, 0, 0, 0, 0, 0, 0x00, 0x00, 0x80, 0x3F, 0, 0,
        0, 0, 0x00, 0x00, 0x00, 0x00, 0x00, 0x00, 0xF0, 0x3F, b'a', 0, 0, 0,
    ]);
    add("basic/xcdr2-be", &basic, &basic_v, BE2, Policy::SPEC, &[
        0x00, 0x06, 0x00, 0x03, 1, 2, 0, 3, 0, 0, 0, 4, 0, 0, 0, 0, 0, 0, 0, 5, 6, 0, 0, 7, 0, 0, 0, 8, 0, 0, 0, 0, 0, 0, 0, 9, 0x3F, 0x80, 0x00, 0x00, 0x3F,
        0xF0, 0x00, 0x00, 0x00, 0x00, 0x00, 0x00, b'a', 0, 0, 0,
    ]);
    add("basic/xcdr2-le", &basic, &basic_v, LE2, Policy::SPEC, &[
        0x00, 0x07, 0x00, 0x03, 1, 2, 3, 0, 4, 0, 0, 0, 5, 0, 0, 0, 0, 0, 0, 0, 6, 0, 7, 0, 8, 0, 0, 0, 9, 0, 0, 0, 0, 0, 0, 0, 0x00, 0x00, 0x80, 0x3F, 0x00,
        0x00, 0x00, 0x00, 0x00, 0x00, 0xF0, 0x3F, b'a', 0, 0, 0,
    ]);

    // 2. serialize_u8_array (mutable, id 41, [u8;2])
    let u8a = st("U8Array", Ext::Mutable, vec![mem("version", 41, arr(p(Prim::U8), 2))]);
    let u8a_v = sv(vec![bytes(&[1, 2])]);
    add("u8array/xcdr1-be", &u8a, &u8a_v, BE1, DUST, &[0x00, 0x02, 0x00, 0x00, 0x00, 41, 0, 2, 1, 2, 0, 0, 0, 1, 0, 0]);
    add("u8array/xcdr1-le", &u8a, &u8a_v, LE1, DUST, &[0x00, 0x03, 0x00, 0x00, 41, 0x00, 2, 0, 1, 2, 0, 0, 1, 0, 0, 0]);

    // 3. serialize_array_with_lc4
    let a3 = st("TestType", Ext::Mutable, vec![mem("member", 41, arr(p(Prim::U8), 3))]);
    let a3_v = sv(vec![bytes(&[1, 2, 3])]);
    add("lc4/xcdr1-be", &a3, &a3_v, BE1, DUST, &[0x00, 0x02, 0x00, 0x00, 0x00, 41, 0, 3, 1, 2, 3, 0, 0, 1, 0, 0]);
    add("lc4/xcdr1-le", &a3, &a3_v, LE1, DUST, &[0x00, 0x03, 0x00, 0x00, 41, 0x00, 3, 0, 1, 2, 3, 0, 1, 0, 0, 0]);
    add("lc4/xcdr2-be", &a3, &a3_v, BE2, DUST, &[0x00, 0x0a, 0x00, 0x01, 0, 0, 0, 11, 0b100_0000, 0, 0, 41, 0, 0, 0, 3, 1, 2, 3, 0]);
    add("lc4/xcdr2-le", &a3, &a3_v, LE2, DUST, &[0x00, 0x0b, 0x00, 0x01, 11, 0, 0, 0, 41, 0, 0, 0b100_0000, 3, 0, 0, 0, 1, 2, 3, 0]);

    // 4. serialize_locator
    let loc = st("Locator", Ext::Final, vec![mem("kind", 0, p(Prim::I32)), mem("address1", 1, arr(p(Prim::U8), 2)), mem("address2", 2, arr(p(Prim::U8), 3))]);
    let locc = st("LocatorContainer", Ext::Mutable, vec![mem("locator", 73, loc)]);
    let locc_v = sv(vec![sv(vec![Val::I32(1), bytes(&[3, 4]), bytes(&[5, 6, 7])])]);
    add("locator/xcdr1-be", &locc, &locc_v, BE1, DUST, &[0x00, 0x02, 0x00, 0x00, 0, 73, 0, 9, 0, 0, 0, 1, 3, 4, 5, 6, 7, 0, 0, 0, 0, 1, 0, 0]);

    // 5. serialize_string
    let sd = st("StringData", Ext::Final, vec![mem("0", 0, Ty::Str(None))]);
    let sd_v = sv(vec![s("Hola")]);
    add("string/xcdr1-be", &sd, &sd_v, BE1, Policy::SPEC, &[0x00, 0x00, 0x00, 0x03, 0, 0, 0, 5, b'H', b'o', b'l', b'a', 0x00, 0, 0, 0]);
    add("string/xcdr1-le", &sd, &sd_v, LE1, Policy::SPEC, &[0x00, 0x01, 0x00, 0x03, 5, 0, 0, 0, b'H', b'o', b'l', b'a', 0x00, 0, 0, 0]);
    add("string/xcdr2-be", &sd, &sd_v, BE2, Policy::SPEC, &[0x00, 0x06, 0x00, 0x03, 0, 0, 0, 5, b'H', b'o', b'l', b'a', 0x00, 0, 0, 0]);
    add("string/xcdr2-le", &sd, &sd_v, LE2, Policy::SPEC, &[0x00, 0x07, 0x00, 0x03, 5, 0, 0, 0, b'H', b'o', b'l', b'a', 0x00, 0, 0, 0]);

    // 6. serialize_string_list
    let sl = st("StringList", Ext::Final, vec![mem("name", 0, seq(Ty::Str(None)))]);
    let sl_v = sv(vec![Val::List(vec![s("one"), s("two")])]);
    add("stringlist/xcdr1-be", &sl, &sl_v, BE1, Policy::SPEC, &[0x00, 0x00, 0x00, 0x00, 0, 0, 0, 2, 0, 0, 0, 4, b'o', b'n', b'e', 0, 0, 0, 0, 4, b't', b'w', b'o', 0]);

    // 7. serialize_final_struct
    let ft = st("FinalType", Ext::Final, vec![mem("field_u16", 0, p(Prim::U16)), mem("field_u64", 1, p(Prim::U64))]);
    let ft_v = sv(vec![Val::U16(7), Val::U64(9)]);
    add("final/xcdr1-be", &ft, &ft_v, BE1, Policy::SPEC, &[0x00, 0x00, 0x00, 0x00, 0, 7, 0, 0, 0, 0, 0, 0, 0, 0, 0, 0, 0, 0, 0, 9]);
    add("final/xcdr1-le", &ft, &ft_v, LE1, Policy::SPEC, &[0x00, 0x01, 0x00, 0x00, 7, 0, 0, 0, 0, 0, 0, 0, 9, 0, 0, 0, 0, 0, 0, 0]);
    add("final/xcdr2-be", &ft, &ft_v, BE2, Policy::SPEC, &[0x00, 0x06, 0x00, 0x00, 0, 7, 0, 0, 0, 0, 0, 0, 0, 0, 0, 9]);
    add("final/xcdr2-le", &ft, &ft_v, LE2, Policy::SPEC, &[0x00, 0x07, 0x00, 0x00, 7, 0, 0, 0, 9, 0, 0, 0, 0, 0, 0, 0]);

    // 8. serialize_nested_final_struct
    let nft = st("NestedFinalType", Ext::Final, vec![mem("field_nested", 0, ft.clone()), mem("field_u8", 1, p(Prim::U8))]);
    let nft_v = sv(vec![ft_v.clone(), Val::U8(10)]);
    add("nested-final/xcdr1-be", &nft, &nft_v, BE1, Policy::SPEC, &[0x00, 0x00, 0x00, 0x03, 0, 7, 0, 0, 0, 0, 0, 0, 0, 0, 0, 0, 0, 0, 0, 9, 10, 0, 0, 0]);
    add("nested-final/xcdr1-le", &nft, &nft_v, LE1, Policy::SPEC, &[0x00, 0x01, 0x00, 0x03, 7, 0, 0, 0, 0, 0, 0, 0, 9, 0, 0, 0, 0, 0, 0, 0, 10, 0, 0, 0]);
    add("nested-final/xcdr2-be", &nft, &nft_v, BE2, Policy::SPEC, &[0x00, 0x06, 0x00, 0x03, 0, 7, 0, 0, 0, 0, 0, 0, 0, 0, 0, 9, 10, 0, 0, 0]);
    add("nested-final/xcdr2-le", &nft, &nft_v, LE2, Policy::SPEC, &[0x00, 0x07, 0x00, 0x03, 7, 0, 0, 0, 9, 0, 0, 0, 0, 0, 0, 0, 10, 0, 0, 0]);

    // 9. serialize_appendable_struct
    let at = st("AppendableType", Ext::Appendable, vec![mem("value", 0, p(Prim::U16))]);
    let at_v = sv(vec![Val::U16(7)]);
    add("appendable/xcdr1-be", &at, &at_v, BE1, Policy::SPEC, &[0x00, 0x00, 0x00, 0x02, 0, 7, 0, 0]);
    add("appendable/xcdr1-le", &at, &at_v, LE1, Policy::SPEC, &[0x00, 0x01, 0x00, 0x02, 7, 0, 0, 0]);
    add("appendable/xcdr2-be", &at, &at_v, BE2, Policy::SPEC, &[0x00, 0x08, 0x00, 0x02, 0, 0, 0, 2, 0, 7, 0, 0]);
    add("appendable/xcdr2-le", &at, &at_v, LE2, Policy::SPEC, &[0x00, 0x09, 0x00, 0x02, 2, 0, 0, 0, 7, 0, 0, 0]);

    // 10. serialize_mutable_struct_simple
    let ms = st("MutableType", Ext::Mutable, vec![mem("x1", 1, p(Prim::U32))]);
    let ms_v = sv(vec![Val::U32(1)]);
    add("mutable-simple/xcdr2-le", &ms, &ms_v, LE2, Policy::SPEC, &[0x00, 0x0b, 0x00, 0x00, 8, 0, 0, 0, 0x01, 0, 0, 0b010_0000, 1, 0, 0, 0]);

    // 11. serialize_mutable_struct (members emitted in ascending id order by dust-dds)
    let mt = st("MutableType", Ext::Mutable, vec![keym("one_byte", 0x3091, p(Prim::U8)), mem("two_bytes", 0x2081, p(Prim::U16))]);
    let mt_v = sv(vec![Val::U8(7), Val::U16(0x0809)]);
    add("mutable/xcdr1-be", &mt, &mt_v, BE1, DUST, &[0x00, 0x02, 0x00, 0x00, 0x20, 0x81, 0, 2, 0x08, 0x09, 0, 0, 0x70, 0x91, 0, 1, 7, 0, 0, 0, 0, 1, 0, 0]);
    add("mutable/xcdr1-le", &mt, &mt_v, LE1, DUST, &[0x00, 0x03, 0x00, 0x00, 0x81, 0x20, 2, 0, 0x09, 0x08, 0, 0, 0x91, 0x70, 1, 0, 7, 0, 0, 0, 1, 0, 0, 0]);
    add("mutable/xcdr2-be", &mt, &mt_v, BE2, DUST, &[0x00, 0x0a, 0x00, 0x03, 0, 0, 0, 13, 0b001_0000, 0, 0x20, 0x81, 0x08, 0x09, 0, 0, 128, 0, 0x30, 0x91, 7, 0, 0, 0]);
    add("mutable/xcdr2-le", &mt, &mt_v, LE2, DUST, &[0x00, 0x0b, 0x00, 0x03, 13, 0, 0, 0, 0x81, 0x20, 0, 0b001_0000, 0x09, 0x08, 0, 0, 0x91, 0x30, 0, 128, 7, 0, 0, 0]);

    // 12. serialize_nested_mutable_struct
    let tiny = st("TinyFinalType", Ext::Final, vec![mem("primitive", 0, p(Prim::U16))]);
    let inner = st("MutableType", Ext::Mutable, vec![keym("one_byte", 90, p(Prim::U8)), mem("two_bytes", 80, p(Prim::U16))]);
    let nm = st("NestedMutableType", Ext::Mutable, vec![keym("field_primitive", 96, p(Prim::U8)), mem("field_mutable", 97, inner), mem("field_final", 98, tiny)]);
    let nm_v = sv(vec![Val::U8(5), sv(vec![Val::U8(7), Val::U16(8)]), sv(vec![Val::U16(9)])]);
    add("nested-mutable/xcdr1-be", &nm, &nm_v, BE1, DUST, &[
        0x00, 0x02, 0x00, 0x00, 0x40, 96, 0, 1, 5, 0, 0, 0, 0x00, 97, 0, 20, 0x00, 80, 0, 2, 0, 8, 0, 0, 0x40, 90, 0, 1, 7, 0, 0, 0, 0, 1, 0, 0, 0x00, 98, 0, 2, 0, 9, 0,
        0, 0, 1, 0, 0,
    ]);
    add("nested-mutable/xcdr1-le", &nm, &nm_v, LE1, DUST, &[
        0x00, 0x03, 0x00, 0x00, 96, 0x40, 1, 0, 5, 0, 0, 0, 97, 0x00, 20, 0, 0x50, 0x00, 2, 0, 8, 0, 0, 0, 90, 0x40, 1, 0, 7, 0, 0, 0, 1, 0, 0, 0, 98, 0x00, 2, 0, 9, 0, 0,
        0, 1, 0, 0, 0,
    ]);

    // 13. serialize_appendable_shapes
    let shapes = st(
        "AppendableShapesType",
        Ext::Appendable,
        vec![keym("color", 0, Ty::Str(None)), mem("x", 1, p(Prim::I32)), mem("y", 2, p(Prim::I32)), mem("shapesize", 3, p(Prim::I32)), mem("additional_payload_size", 4, seq(p(Prim::U8)))],
    );
    let shapes_v = sv(vec![s("BLUE"), Val::I32(10), Val::I32(20), Val::I32(30), Val::List(vec![])]);
    add("shapes/xcdr1-be", &shapes, &shapes_v, BE1, Policy::SPEC, &[0x00, 0x00, 0x00, 0x00, 0, 0, 0, 5, b'B', b'L', b'U', b'E', 0, 0, 0, 0, 0, 0, 0, 10, 0, 0, 0, 20, 0, 0, 0, 30, 0, 0, 0, 0]);
    add("shapes/xcdr1-le", &shapes, &shapes_v, LE1, Policy::SPEC, &[0x00, 0x01, 0x00, 0x00, 5, 0, 0, 0, b'B', b'L', b'U', b'E', 0, 0, 0, 0, 10, 0, 0, 0, 20, 0, 0, 0, 30, 0, 0, 0, 0, 0, 0, 0]);
    add("shapes/xcdr2-be", &shapes, &shapes_v, BE2, Policy::SPEC, &[
        0x00, 0x08, 0x00, 0x00, 0, 0, 0, 28, 0, 0, 0, 5, b'B', b'L', b'U', b'E', 0, 0, 0, 0, 0, 0, 0, 10, 0, 0, 0, 20, 0, 0, 0, 30, 0, 0, 0, 0,
    ]);
    add("shapes/xcdr2-le", &shapes, &shapes_v, LE2, Policy::SPEC, &[
        0x00, 0x09, 0x00, 0x00, 28, 0, 0, 0, 5, 0, 0, 0, b'B', b'L', b'U', b'E', 0, 0, 0, 0, 10, 0, 0, 0, 20, 0, 0, 0, 30, 0, 0, 0, 0, 0, 0, 0,
    ]);

    // 14. serialize_final_union_type
    let inner_t = st("MyInnerType", Ext::Final, vec![mem("0", 0, p(Prim::U32))]);
    let un = |ext: Ext| {
        Ty::Union(Box::new(UnionDef {
            name: "MyDynamicType".into(),
            ext,
            disc: Prim::U16,
            cases: vec![
                Case { name: "VariantA".into(), id: 1, labels: vec![5], default: false, ty: Some(inner_t.clone()) },
                Case { name: "VariantB".into(), id: 2, labels: vec![6], default: false, ty: Some(p(Prim::U32)) },
                Case { name: "VariantC".into(), id: 3, labels: vec![7], default: false, ty: None },
            ],
        }))
    };
    let fu = un(Ext::Final);
    let va = Val::Union { disc: 5, case: Some(0), val: Some(Box::new(sv(vec![Val::U32(10)]))) };
    let vb = Val::Union { disc: 6, case: Some(1), val: Some(Box::new(Val::U32(10))) };
    let vc = Val::Union { disc: 7, case: Some(2), val: None };
    add("final-union-b/xcdr1-be", &fu, &vb, BE1, Policy::SPEC, &[0x00, 0x00, 0x00, 0x00, 0, 6, 0, 0, 0, 0, 0, 10]);
    add("final-union-b/xcdr2-be", &fu, &vb, BE2, Policy::SPEC, &[0x00, 0x06, 0x00, 0x00, 0, 6, 0, 0, 0, 0, 0, 10]);
    add("final-union-c/xcdr1-be", &fu, &vc, BE1, Policy::SPEC, &[0x00, 0x00, 0x00, 0x02, 0, 7, 0, 0]);
    add("final-union-c/xcdr2-be", &fu, &vc, BE2, Policy::SPEC, &[0x00, 0x06, 0x00, 0x02, 0, 7, 0, 0]);
    add("final-union-a/xcdr1-be", &fu, &va, BE1, Policy::SPEC, &[0x00, 0x00, 0x00, 0x00, 0, 5, 0, 0, 0, 0, 0, 10]);
    add("final-union-a/xcdr2-be", &fu, &va, BE2, Policy::SPEC, &[0x00, 0x06, 0x00, 0x00, 0, 5, 0, 0, 0, 0, 0, 10]);

    // 15. serialize_mutable_union_type
    let mu = un(Ext::Mutable);
    add("mutable-union-a/xcdr1-be", &mu, &va, BE1, DUST, &[0, 0x02, 0, 0, 0b0100_0000, 0, 0, 2, 0, 5, 0, 0, 0, 1, 0, 4, 0, 0, 0, 10, 0, 1, 0, 0]);
    add("mutable-union-a/xcdr2-be", &mu, &va, BE2, DUST, &[0, 0x0a, 0, 0, 0, 0, 0, 16, 0b1001_0000, 0, 0, 0, 0, 5, 0, 0, 0b010_0000, 0, 0, 1, 0, 0, 0, 10]);
    add("mutable-union-b/xcdr1-be", &mu, &vb, BE1, DUST, &[0, 0x02, 0, 0, 0b0100_0000, 0, 0, 2, 0, 6, 0, 0, 0, 2, 0, 4, 0, 0, 0, 10, 0, 1, 0, 0]);
    add("mutable-union-b/xcdr2-be", &mu, &vb, BE2, DUST, &[0x00, 0x0a, 0x00, 0x00, 0, 0, 0, 16, 0b1001_0000, 0, 0, 0, 0, 6, 0, 0, 0b010_0000, 0, 0, 2, 0, 0, 0, 10]);

    // 16. serialize_final_union_type_nested
    let fu2 = Ty::Union(Box::new(UnionDef {
        name: "MyDynamicType".into(),
        ext: Ext::Final,
        disc: Prim::U16,
        cases: vec![
            Case { name: "VariantB".into(), id: 1, labels: vec![6], default: false, ty: Some(p(Prim::U32)) },
            Case { name: "VariantC".into(), id: 2, labels: vec![7], default: false, ty: None },
        ],
    }));
    let myt = st("MyType", Ext::Final, vec![mem("field", 0, fu2)]);
    let myt_v = sv(vec![Val::Union { disc: 6, case: Some(0), val: Some(Box::new(Val::U32(10))) }]);
    add("union-in-struct/xcdr1-be", &myt, &myt_v, BE1, Policy::SPEC, &[0x00, 0x00, 0x00, 0x00, 0, 6, 0, 0, 0, 0, 0, 10]);

    // 17. cyclone_dispose_message (capture from Cyclone DDS: key-only sample of DisposeDataType)
    let disp = st("DisposeDataTypeKey", Ext::Final, vec![keym("name", 0, Ty::Str(None))]);
    let disp_v = sv(vec![s("Very Long Name")]);
    add("cyclone-dispose/xcdr1-le", &disp, &disp_v, LE1, Policy::SPEC, &[
        0x0, 0x1, 0x0, 0x1, 0xf, 0x0, 0x0, 0x0, 0x56, 0x65, 0x72, 0x79, 0x20, 0x4c, 0x6f, 0x6e, 0x67, 0x20, 0x4e, 0x61, 0x6d, 0x65, 0x0, 0x0,
    ]);

    // 18. deserialize_final_struct {u16,u64,u32}
    let f3 = st("FinalType3", Ext::Final, vec![mem("field_u16", 0, p(Prim::U16)), mem("field_u64", 1, p(Prim::U64)), mem("field_u32", 2, p(Prim::U32))]);
    let f3_v = sv(vec![Val::U16(7), Val::U64(9), Val::U32(10)]);
    add("final3/xcdr1-be", &f3, &f3_v, BE1, Policy::SPEC, &[0x00, 0x00, 0x00, 0x00, 0, 7, 0, 0, 0, 0, 0, 0, 0, 0, 0, 0, 0, 0, 0, 9, 0, 0, 0, 10]);
    add("final3/xcdr2-le", &f3, &f3_v, LE2, Policy::SPEC, &[0x00, 0x07, 0x00, 0x00, 7, 0, 0, 0, 9, 0, 0, 0, 0, 0, 0, 0, 10, 0, 0, 0]);

    // 19. deserialize_final_struct_with_sequence
    let fs = st("FinalTypeWithSequence", Ext::Final, vec![mem("field_u16", 0, p(Prim::U16)), mem("field_u64", 1, p(Prim::U64)), mem("field_seq_u32", 2, seq(p(Prim::U32)))]);
    let fs_v = sv(vec![Val::U16(7), Val::U64(9), Val::List(vec![Val::U32(1), Val::U32(4)])]);
    add("final-seq/xcdr1-le", &fs, &fs_v, LE1, Policy::SPEC, &[0x00, 0x01, 0x00, 0x00, 7, 0, 0, 0, 0, 0, 0, 0, 9, 0, 0, 0, 0, 0, 0, 0, 2, 0, 0, 0, 1, 0, 0, 0, 4, 0, 0, 0]);
    add("final-seq/xcdr2-be", &fs, &fs_v, BE2, Policy::SPEC, &[0x00, 0x06, 0x00, 0x00, 0, 7, 0, 0, 0, 0, 0, 0, 0, 0, 0, 9, 0, 0, 0, 2, 0, 0, 0, 1, 0, 0, 0, 4]);

    // 20. deserialize_appendable_struct {key u8, u32}
    let ap = st("AppendableType2", Ext::Appendable, vec![keym("key", 0, p(Prim::U8)), mem("participant_key", 1, p(Prim::U32))]);
    let ap_v = sv(vec![Val::U8(7), Val::U32(8)]);
    add("appendable2/xcdr1-be", &ap, &ap_v, BE1, Policy::SPEC, &[0x00, 0x00, 0x00, 0x00, 7, 0, 0, 0, 0, 0, 0, 8]);
    add("appendable2/xcdr2-be", &ap, &ap_v, BE2, Policy::SPEC, &[0x00, 0x08, 0x00, 0x00, 0, 0, 0, 8, 7, 0, 0, 0, 0, 0, 0, 8]);

    // 21. deserialize_array_with_lc4, XCDR1 part (two members, RTPS sentinel)
    let t2 = st("TestType2", Ext::Mutable, vec![mem("m1", 41, arr(p(Prim::U8), 3)), mem("m2", 42, p(Prim::U32))]);
    let t2_v = sv(vec![bytes(&[1, 2, 3]), Val::U32(6)]);
    add("lc4-two/xcdr1-be", &t2, &t2_v, BE1, DUST, &[0x00, 0x02, 0x00, 0x00, 0x00, 41, 0, 3, 1, 2, 3, 0, 0x00, 42, 0, 4, 0, 0, 0, 6, 0, 1, 0, 0]);

    // 22. serialize_type_lookup_request (built-in TypeLookup service type, interoperable wire format;
    //     empty type_ids sequence; EMHEADER with LC 5 shares NEXTINT with the sequence DHEADER)
    let type_identifier = Ty::Union(Box::new(UnionDef {
        name: "TypeIdentifier".into(),
        ext: Ext::Final,
        disc: Prim::U8,
        cases: vec![
            Case { name: "EkMinimal".into(), id: 1, labels: vec![241], default: false, ty: Some(arr(p(Prim::U8), 14)) },
            Case { name: "EkComplete".into(), id: 2, labels: vec![242], default: false, ty: Some(arr(p(Prim::U8), 14)) },
        ],
    }));
    let get_types_in = st("TypeLookup_getTypes_In", Ext::Mutable, vec![mem("type_ids", 0x0C53_6065, seq(type_identifier.clone()))]);
    let call = Ty::Union(Box::new(UnionDef {
        name: "TypeLookup_Call".into(),
        ext: Ext::Appendable,
        disc: Prim::I32,
        cases: vec![Case { name: "getTypes".into(), id: 1, labels: vec![0x0182_52d3], default: false, ty: Some(get_types_in) }],
    }));
    let sample_identity = st("SampleIdentity", Ext::Final, vec![mem("writer_guid", 0, arr(p(Prim::U8), 16)), mem("sn_high", 1, p(Prim::I32)), mem("sn_low", 2, p(Prim::U32))]);
    let req_header = st("RequestHeader", Ext::Final, vec![mem("request_id", 0, sample_identity), mem("instance_name", 1, Ty::Str(None))]);
    let request = st("TypeLookup_Request", Ext::Final, vec![mem("header", 0, req_header), mem("call", 1, call.clone())]);
    let request_v = sv(vec![
        sv(vec![sv(vec![bytes(&[1; 16]), Val::I32(0), Val::U32(5)]), s("")]),
        Val::Union { disc: 0x0182_52d3, case: Some(0), val: Some(Box::new(sv(vec![Val::List(vec![])]))) },
    ]);
    add("typelookup-request/xcdr2-le", &request, &request_v, LE2, DUST, &[
        0x00, 0x07, 0x00, 0x00, 1, 1, 1, 1, 1, 1, 1, 1, 1, 1, 1, 1, 1, 1, 1, 1, 0, 0, 0, 0, 5, 0, 0, 0, 1, 0, 0, 0, 0, 0, 0, 0, 20, 0, 0, 0, 211, 82, 130, 1, 12, 0,
        0, 0, 101, 96, 83, 92, 4, 0, 0, 0, 0, 0, 0, 0,
    ]);

    // 23. serialize_type_lookup_get_types_in (one EK_COMPLETE identifier)
    let call_v = Val::Union {
        disc: 0x0182_52d3,
        case: Some(0),
        val: Some(Box::new(sv(vec![Val::List(vec![Val::Union { disc: 242, case: Some(1), val: Some(Box::new(bytes(&[5; 14]))) }])]))),
    };
    add("typelookup-call/xcdr2-le", &call, &call_v, LE2, DUST, &[
        0x00, 0x09, 0x00, 0x01, 35, 0, 0, 0, 0xd3, 0x52, 0x82, 0x01, 27, 0, 0, 0, 101, 96, 83, 92, 19, 0, 0, 0, 1, 0, 0, 0, 242, 5, 5, 5, 5, 5, 5, 5, 5, 5, 5, 5, 5,
        5, 5, 0,
    ]);

    // 24. serialize_type_identifier (TypeInformation, no encapsulation header)
    let tiws = st("TypeIdentfierWithSize", Ext::Appendable, vec![mem("type_id", 0, type_identifier.clone()), mem("typeobject_serialized_size", 1, p(Prim::U32))]);
    let tiwd = st(
        "TypeIdentifierWithDependencies",
        Ext::Appendable,
        vec![mem("typeid_with_size", 0, tiws.clone()), mem("dependent_typeid_count", 1, p(Prim::I32)), mem("dependent_typeids", 2, seq(tiws))],
    );
    let tinfo = st("TypeInformation", Ext::Mutable, vec![mem("minimal", 0x1001, tiwd.clone()), mem("complete", 0x1002, tiwd)]);
    let dep = |d: i64, ci: usize| sv(vec![sv(vec![Val::Union { disc: d, case: Some(ci), val: Some(Box::new(bytes(&[5; 14]))) }, Val::U32(10)]), Val::I32(0), Val::List(vec![])]);
    let tinfo_v = sv(vec![dep(241, 0), dep(242, 1)]);
    v.push(Vector {
        name: "typeinformation/bare-xcdr2-le",
        ty: tinfo,
        val: tinfo_v,
        enc: Err((Ver::V2, false)),
        pol: DUST,
        bytes: vec![
            88, 0, 0, 0, 0x01, 0x10, 0, 80, 36, 0, 0, 0, 20, 0, 0, 0, 241, 5, 5, 5, 5, 5, 5, 5, 5, 5, 5, 5, 5, 5, 5, 0, 10, 0, 0, 0, 0, 0, 0, 0, 4, 0, 0, 0, 0, 0, 0, 0,
            0x02, 0x10, 0, 80, 36, 0, 0, 0, 20, 0, 0, 0, 242, 5, 5, 5, 5, 5, 5, 5, 5, 5, 5, 5, 5, 5, 5, 0, 10, 0, 0, 0, 0, 0, 0, 0, 4, 0, 0, 0, 0, 0, 0, 0,
        ],
    });
    v
}

/// Runs the self-test. Ok(number of vectors) or the list of mismatches.
pub fn self_test() -> Result<usize, Vec<String>> {
    let mut errs = vec![];
    let vs = vectors();
    for v in &vs {
        match v.enc {
            Ok(enc) => {
                match encode(&v.ty, &v.val, enc, v.pol) {
                    Ok((b, _)) => {
                        if b != v.bytes {
                            errs.push(format!("{}: encoder produced {:02x?}, golden {:02x?}", v.name, b, v.bytes));
                        }
                    }
                    Err(e) => errs.push(format!("{}: encoder error {}", v.name, e.0)),
                }
                match decode(&v.ty, &v.bytes, Some(enc)) {
                    Ok((val, _)) => {
                        if val != v.val {
                            errs.push(format!("{}: decoder produced {:?}, expected {:?}", v.name, val, v.val));
                        }
                    }
                    Err(e) => errs.push(format!("{}: decoder error {} ({})", v.name, e.what, e.clause)),
                }
            }
            Err((ver, be)) => match encode_bare(&v.ty, &v.val, ver, be, v.pol) {
                Ok(b) => {
                    if b != v.bytes {
                        errs.push(format!("{}: encoder produced {:02x?}, golden {:02x?}", v.name, b, v.bytes));
                    }
                }
                Err(e) => errs.push(format!("{}: encoder error {}", v.name, e.0)),
            },
        }
    }
    if errs.is_empty() { Ok(vs.len()) } else { Err(errs) }
}
