fn main() {
    eprintln!("engine xcdr: not built yet");
    std::process::exit(2);
}
