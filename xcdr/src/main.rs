//! Engine `xcdr`: properties C09, C10, C11, C12, C39 (XCDR codecs, key hash, type evolution).

mod c09;
mod c10;
mod c39;
mod features;
mod golden;
mod harness;
mod keys;
mod lower;
mod rxcdr;
mod types;

/// Global allocator of the engine. dust-dds's deserializer calls `Vec::with_capacity(n)` with an
/// element count read from the stream; when a stream is mis-framed (the findings of C09/C10 do
/// that to dust-dds's own output) `n` is garbage and the request is tens of gigabytes. A failed
/// allocation aborts the process (it is not a panic), which would end the campaign. Requests
/// above 256 MiB are therefore served as lazily committed anonymous mappings (MAP_NORESERVE):
/// they succeed without touching memory, the decoder then runs into the end of its input and
/// returns an error, which is what the oracles observe. (Allocation bounds are the subject of
/// C07, not of the properties served here.)
struct LazyBig;

const BIG: usize = 256 << 20;

unsafe impl std::alloc::GlobalAlloc for LazyBig {
    unsafe fn alloc(&self, l: std::alloc::Layout) -> *mut u8 {
        if l.size() >= BIG {
            let p = unsafe {
                libc::mmap(
                    std::ptr::null_mut(),
                    l.size(),
                    libc::PROT_READ | libc::PROT_WRITE,
                    libc::MAP_PRIVATE | libc::MAP_ANONYMOUS | libc::MAP_NORESERVE,
                    -1,
                    0,
                )
            };
            if p == libc::MAP_FAILED { std::ptr::null_mut() } else { p as *mut u8 }
        } else {
            unsafe { std::alloc::System.alloc(l) }
        }
    }
    unsafe fn dealloc(&self, p: *mut u8, l: std::alloc::Layout) {
        if l.size() >= BIG {
            unsafe { libc::munmap(p as *mut libc::c_void, l.size()) };
        } else {
            unsafe { std::alloc::System.dealloc(p, l) }
        }
    }
}

#[global_allocator]
static A: LazyBig = LazyBig;

fn main() {
    // no backtrace symbolisation in children that abort (costs ~100 ms each)
    unsafe { std::env::set_var("RUST_BACKTRACE", "0") };
    let ctx = vcore::Ctx::from_args();
    harness::install_panic_hook();
    harness::set_case_cpu_millis(ctx.pick(60, 400));
    match ctx.id.as_str() {
        "C09" => c09::main(&ctx),
        "C10" => c10::main(&ctx),
        "C11" | "C12" => keys::main(&ctx),
        "C39" => c39::main(&ctx),
        "probe" => {
            // development aid: xcdr probe quick <file.json>  (a C09 case: {"ty":..,"vals":[..]})
            let path = ctx.extra.first().expect("file");
            let txt = std::fs::read_to_string(path).unwrap();
            let v: serde_json::Value = serde_json::from_str(&txt).unwrap();
            let v = v.get("case").cloned().unwrap_or(v);
            let case: c09::Case = serde_json::from_value(v).unwrap();
            c09::probe(&case);
            std::process::exit(0)
        }
        "keyprobe" => {
            let path = ctx.extra.first().expect("file");
            let txt = std::fs::read_to_string(path).unwrap();
            let v: serde_json::Value = serde_json::from_str(&txt).unwrap();
            let v = v.get("case").cloned().unwrap_or(v);
            let case: keys::Case = serde_json::from_value(v).unwrap();
            keys::probe(&case);
            std::process::exit(0)
        }
        "selftest" => match golden::self_test() {
            Ok(n) => {
                println!("R-XCDR self-test: {n} golden vectors reproduced");
                std::process::exit(0)
            }
            Err(e) => {
                for l in e {
                    println!("{l}");
                }
                std::process::exit(2)
            }
        },
        other => {
            eprintln!("engine xcdr does not serve {other}");
            std::process::exit(2);
        }
    }
}
