//! Engine `xcdr`: properties C09, C10, C11, C12, C39 (XCDR codecs, key hash, type evolution).

mod c09;
mod features;
mod golden;
mod harness;
mod lower;
mod rxcdr;
mod types;

#[global_allocator]
static A: vcore::alloc::Counting = vcore::alloc::Counting;

fn main() {
    // no backtrace symbolisation in children that abort (costs ~100 ms each)
    unsafe { std::env::set_var("RUST_BACKTRACE", "0") };
    let ctx = vcore::Ctx::from_args();
    harness::install_panic_hook();
    match ctx.id.as_str() {
        "C09" => c09::main(&ctx),
        "selftest" => match golden::self_test() {
            Ok(n) => {
                println!("R-XCDR self-test: {n} golden vectors reproduced");
                std::process::exit(0)
            }
            Err(e) => {
                for l in e {
                    println!("{l}");
                }
                std::process::exit(2)
            }
        },
        other => {
            eprintln!("engine xcdr does not serve {other}");
            std::process::exit(2);
        }
    }
}
