import json,sys
pid,hint=sys.argv[1],sys.argv[2]
for l in open('/verif/properties.jsonl'):
    p=json.loads(l)
    if p['id']==pid: break
wt=f"/tmp/mut-{pid}"
files=", ".join(p['anchors']['files'])
print(f'''You are an experienced Rust engineer doing mutation-style robustness research on the open-source DDS middleware s2e-systems/dust-dds. You work ONLY inside the git worktree {wt} (a checkout of the repository; build with `cd {wt}/dds && CARGO_NET_OFFLINE=true cargo build --offline`; there is no network). Do not read or touch anything under /verif or /repo, and do not look for verification harnesses: your work must be independent.

Property of dust-dds under study ({pid}): "{p['title']}" — {p['statement']}
(Quantified over: {p['quantifier']['text']})
Code that is meant to make it hold is mostly in: {files}.

Task: produce ONE realistic change to the dust-dds source code (in {wt}) that BREAKS this property, while
 (a) the workspace still compiles,
 (b) the existing tests still pass: at least `cd {wt}/dds && CARGO_NET_OFFLINE=true cargo test --offline --lib` (181 unit tests) and the integration test file(s) in {wt}/dds/tests related to the code you touch (`cargo test --offline --test <name> -- --test-threads 1`; these use real UDP on loopback and are timing-sensitive on this busy machine — a test that fails identically WITHOUT your change is not your problem, check by saving your change with `git diff -- . ':!dds/tests/mutant_demo.rs' > /tmp/mychange-{pid}.patch`, reverting with `git checkout -- <changed files>` and re-applying with `git apply /tmp/mychange-{pid}.patch`; do NOT use `git stash`: the stash is shared with other worktrees),
 (c) the breakage is SUBTLE: it must need something specific to manifest — a particular interleaving or loss pattern, a fault at a particular point, a multi-step sequence of operations, an unusual but legal input/QoS value, or two cooperating code sites that each look fine alone. It must NOT be exposed at once by ordinary use (the common paths exercised by the existing tests must still work). Think of the kind of bug a plausible refactoring, optimisation or "simplification" would introduce (off-by-one at a boundary, a dropped state update on a rare path, a wrong comparison operator for one corner, state reset on the wrong event, a count updated on the wrong branch), not sabotage.
Then write a DEMONSTRATION that FAILS with your change and PASSES without it (verify both directions yourself by reverting and re-applying the patch as described above): {hint}

Deliver, in {wt}:
 - the source change left applied in the working tree (do NOT commit) and saved as /tmp/mychange-{pid}.patch (source change only, without the demonstration),
 - {wt}/dds/tests/mutant_demo.rs (or the unit test) as the demonstration,
 - {wt}/MUTANT.md with: which file/function you changed and why it breaks the property, what exactly is needed for the breakage to manifest, the exact commands you ran and their results (compile, existing tests, demo failing with / passing without the change).
Finish with a short summary of the same. Do not create more than one mutant. Budget: about 45 minutes.''')
