#!/bin/bash
# usage: tools/try_seeded.sh <seeded-dir-name> <ID> [<ID>...]   — applies the seeded change to /repo, runs the
# quick checks, reverts. Evidence/replay output goes to a scratch VERIF_ROOT so committed evidence is untouched.
set -u
S=/verif/seeded/$1; shift
cd /repo || exit 2
if ! git diff --quiet; then echo "/repo working tree not clean"; exit 2; fi
git apply "$S/patch.diff" || exit 2
trap 'git -C /repo checkout -- . ' EXIT
SCR=/tmp/vr_seeded; rm -rf $SCR; mkdir -p $SCR; cp /verif/known_findings.json $SCR/
for id in "$@"; do
  echo "=== $id against $(basename $S)"
  start=$(date +%s)
  (cd /verif && VERIF_SCRATCH_ROOT=$SCR python3 dispatch.py $id quick 2>&1 | grep -v "^proptest\|^KNOWN" | cut -c1-400 | tail -6)
  echo "exit=${PIPESTATUS[0]} elapsed=$(( $(date +%s) - start ))s"
done
