#!/bin/bash
# usage: tools/try_seeded_private.sh <seeded-name> <ID>...
# Like tools/try_seeded.sh, but against PRIVATE copies so that /repo's working tree stays untouched (needed while
# long background runs rebuild from /repo): /tmp/repo2 = git worktree of /repo HEAD, /tmp/verif2 = copy of the
# E-SIM family crates of /verif with the dust_dds path dependency rewritten to /tmp/repo2/dds. Only E-SIM checks.
set -u
if [ ! -d /tmp/repo2 ]; then git -C /repo worktree add -q --detach /tmp/repo2 HEAD; else git -C /tmp/repo2 checkout -q --detach $(git -C /repo rev-parse HEAD); fi
mkdir -p /tmp/verif2
rsync -a --delete --exclude 'target*' --exclude '.git' --exclude 'gen/out' --exclude 'fuzz' /verif/ /tmp/verif2/
sed -i 's#path = "/repo/dds"#path = "/tmp/repo2/dds"#; s#^members = .*#members = ["vcore", "sim", "sim_entity", "sim_status", "rtpsd"]#' /tmp/verif2/Cargo.toml
sed -i 's#/verif/target#/tmp/verif2-target#' /tmp/verif2/.cargo/config.toml
sed -i 's#"/repo/"#"/repo2/"#g' /tmp/verif2/sim/src/case.rs
S=/verif/seeded/$1; shift
cd /tmp/repo2 || exit 2
git checkout -q -- . ; git apply "$S/patch.diff" || exit 2
SCR=/tmp/vr_seeded2; rm -rf $SCR; mkdir -p $SCR; cp /verif/known_findings.json $SCR/
cd /tmp/verif2
for id in "$@"; do
  echo "=== $id against $(basename $S)"
  eng=sim; case $id in C28|C35|C36|C37) eng=sim_entity;; C30|C31|C32|C33) eng=sim_status;; esac
  CARGO_NET_OFFLINE=true cargo build --release -q -p $eng 2>&1 | tail -3
  VERIF_ROOT=$SCR VERIF_REGRESS=/verif/regress /tmp/verif2-target/release/$eng $id quick 2>&1 | grep -v "^proptest\|^KNOWN" | cut -c1-400 | tail -6
  case $id in C01|C02|C05) CARGO_NET_OFFLINE=true cargo build --release -q -p rtpsd 2>&1 | tail -3; VERIF_EVIDENCE_SUFFIX=rtps VERIF_ROOT=$SCR /tmp/verif2-target/release/rtpsd $id quick 2>&1 | grep -v "^proptest\|^KNOWN" | cut -c1-400 | tail -6;; esac
done
cd /tmp/repo2 && git checkout -q -- .
