#!/bin/bash
export CARGO_NET_OFFLINE=true CARGO_TARGET_DIR=/tmp/confirm-target
S=/verif/seeded/C41-1; WT=/tmp/confirm-C41-1; L=$S/confirm.log; : > $L
rm -rf $WT; git -C /repo worktree add -q --detach $WT HEAD
cp $S/mutant_demo_dds_gen.rs $WT/dds_gen/tests/mutant_demo.rs
cd $WT/dds_gen
echo "## demo WITHOUT the change" >> $L
timeout 1500 cargo test --offline --test mutant_demo 2>&1 | grep -E "^test |test result|error" | tail -8 >> $L
echo "## apply" >> $L; (cd $WT && git apply $S/patch.diff; git status --short | head -5) >> $L 2>&1
echo "## dds_gen tests WITH the change (mutant_demo is the demonstration)" >> $L
timeout 2400 cargo test --offline --no-fail-fast 2>&1 | grep -E "test result|Running|FAILED" | tail -40 >> $L
cd /verif; git -C /repo worktree remove --force $WT; cat $L
