#!/bin/bash
# usage: tools/confirm_seeded.sh <seeded-dir-name>...
# Confirms each seeded change in a scratch worktree of /repo HEAD: demo passes without the change, the change
# applies and compiles, the repository's lib unit tests pass with it, the demo fails with it. Writes confirm.log.
export CARGO_NET_OFFLINE=true
for name in "$@"; do
  S=/verif/seeded/$name
  WT=/tmp/confirm-$name
  rm -rf $WT; git -C /repo worktree add -q --detach $WT HEAD || continue
  L=$S/confirm.log; : > $L
  demo=$(ls $S | grep -E '^mutant_demo.*\.rs$' | head -1)
  cp $S/$demo $WT/dds/tests/mutant_demo.rs
  export CARGO_TARGET_DIR=/tmp/confirm-target
  cd $WT/dds
  echo "## demo WITHOUT the change" >> $L
  timeout 1500 cargo test --offline --test mutant_demo -- --test-threads 1 2>&1 | grep -E "^test |test result|error" | tail -15 >> $L
  echo "## apply" >> $L
  (cd $WT && git apply $S/patch.diff 2>&1 | grep -v "mutant_demo" ; git -C $WT status --short | head -5) >> $L 2>&1
  echo "## lib unit tests WITH the change" >> $L
  timeout 1500 cargo test --offline --lib 2>&1 | grep -E "test result|error(\[|:)" | tail -3 >> $L
  echo "## demo WITH the change" >> $L
  timeout 1500 cargo test --offline --test mutant_demo -- --test-threads 1 2>&1 | grep -E "^test |test result|error" | tail -15 >> $L
  cd /verif
  git -C /repo worktree remove --force $WT
  echo "confirmed $name"; tail -30 $L
done
rm -rf /tmp/confirm-target
git -C /repo worktree prune
