#!/usr/bin/env python3
"""Generates /verif/MANIFEST.json from the table below (one entry per claimed property)."""
import json, os, sys

ROOT = os.path.dirname(os.path.dirname(os.path.abspath(__file__)))

ENGINES = [
    {"name": "E-SIM", "path": "sim", "kind_free_text": "deterministic whole-system simulation (custom DdsRuntime + in-memory network, virtual time), proptest-generated scenarios and fault/schedule tapes, one forked process per case, shrinking to a JSON replay"},
    {"name": "E-CODEC", "path": "codec", "kind_free_text": "in-process proptest of pure codecs/functions against independent reference models (R-XCDR, R-KEY, R-RTPS-WIRE)"},
    {"name": "E-FUZZ", "path": "fuzz", "kind_free_text": "cargo-fuzz/libFuzzer targets with the semantic oracle inside the target"},
    {"name": "E-CHAN", "path": "chan", "kind_free_text": "atomic-operation interleaving PBT of the worker channels compiled from /repo by path"},
    {"name": "E-RT", "path": "rt", "kind_free_text": "real-time property stress of the std runtime with conservative oracles"},
    {"name": "E-GEN", "path": "gen", "kind_free_text": "generated Rust/IDL programs compiled against /repo and checked against the generator's AST"},
]

# id -> (engine, technique, level text, level note, design_ref)
CHECKS = {}

def add(pid, engine, technique, text, note, ref="DESIGN.md §4"):
    CHECKS[pid] = dict(engine=engine, technique=technique, text=text, note=note, ref=ref)

SIM_NOTE = "trusted base: the harness executor/network (sim/src/exec.rs, net.rs), the independent RTPS reader (vcore/src/wire.rs), proptest; the async API is exercised (the sync API is a block_on wrapper); UDP sockets and the std runtime are replaced by the simulation"

add("C01", "E-SIM", "property-based testing: generated scenarios + fault tape in a deterministic simulation; history oracle (exactly-once, per-instance order, byte-identical, complete after heal)",
    "Held on N generated lossy/duplicating/reordering schedules with a healed tail; bounded liveness (30 s virtual) only; no absence proof.", SIM_NOTE)
add("C02", "E-SIM", "property-based testing: generated scenarios + fault tape; subsequence/no-duplicate/byte-identity oracle",
    "Held on N generated fault schedules for BEST_EFFORT readers; safety only.", SIM_NOTE)
add("C05", "E-SIM", "property-based testing: generated payload sizes around k*fragment_size over the accepted fragment-size range, fragment-level fault tape; byte-identity and completeness oracle",
    "Held on N generated (fragment size, payload size, fragment fault) combinations.", SIM_NOTE)

CACHE_NOTE = SIM_NOTE + "; reference model R-READER (DESIGN.md Appendix A) written from DDS 1.4, perfect network so arrival order == op order"
add("C18", "E-SIM", "model-based property testing: generated write/read histories vs reference reader-cache model (history depth sub-oracle)",
    "Held on N generated histories with KEEP_LAST depth 1..4, max_samples_per_instance in {d, d+1, unlimited} and max_samples in {unlimited, d, 2d, 3d}, compared with the model after every step; 1 case in 4 mixes dispose/unregister notifications in and is judged by the invariant (never more than depth data samples per instance, only from the last depth written).", CACHE_NOTE)
add("C19", "E-SIM", "model-based property testing: generated histories under small resource limits; model predicts every rejection (count, reason, instance) observed through the listener",
    "Held on N generated histories: reader side (model predicts every rejection) and writer side (KEEP_ALL writer with small limits, reader partitioned or reachable, dispose/unregister ops).", CACHE_NOTE)
add("C20", "E-SIM", "model-based property testing: generated read/take calls with all mask combinations, max_samples and specific instances vs reference model (set, order, marking, removal, ranks, NoData)",
    "Held on N generated histories (set, order incl. grouping by instance, marking, removal, ranks, NoData).", CACHE_NOTE)
add("C21", "E-SIM", "model-based property testing: generated source timestamps (random/equal/ascending/descending), order oracle per instance",
    "Held on N generated histories.", CACHE_NOTE)
add("C22", "E-SIM", "model-based property testing: generated write/dispose/unregister histories from 1-2 writers vs DDS instance life-cycle model (instance state, view state, generation counts)",
    "Held on N generated histories.", CACHE_NOTE)
add("C23", "E-SIM", "model-based property testing: generated read/take_next_instance walks over 5 instances with masks that leave instances without matches",
    "Held on N generated histories; an in-between instance holding only dispose/unregister notifications may be returned first (tolerance).", CACHE_NOTE)
add("C24", "E-SIM", "model-based property testing: generated histories from 2-3 writers with distinct strengths under EXCLUSIVE ownership vs owner model",
    "Held on N generated histories except the listed known finding (hand-over ignores stronger registered writer); 30 % of the cases add a TIME_BASED_FILTER and are judged by the invariant that nothing is presented that was written while a strictly stronger, still registered writer had written the instance; equal strengths and deadline-driven hand-over not generated.", CACHE_NOTE)
add("C25", "E-SIM", "property-based testing: generated timestamps around minimum_separation; invariants over everything ever presented",
    "Two known findings (filter forgets taken samples; older-timestamp arrival) are excluded by signature; the in-cache in-order filter and the no-over-filtering direction stay guarded.", CACHE_NOTE)

add("C15", "E-SIM", "property-based testing: independently generated writer-side and reader-side QoS (one policy at a time and all at once), oracle = DDS request/offered table + partition rules (R-RXO), both sides' verdicts compared",
    "Held on N generated QoS pairs; pattern-vs-pattern partitions not judged; callback multiplicity left to C33.", SIM_NOTE)

add("C16", "E-SIM", "model-based property testing: generated create/delete/set_qos/partition/crash histories vs matched-set model (R-COUNT) plus wire monitor for traffic toward departed endpoints",
    "Held on N generated histories over up to 3 remote endpoints, including deletion and re-creation of the local endpoint (a ghost of a lost participant must not match it); ignore_* not exercised.", SIM_NOTE)

add("C17", "E-SIM", "property-based testing: generated participant sets (domain id x tag), announcement fault tape with optional cross-domain delivery, crash instants and ignore; discovery/isolation/lease-window oracle in virtual time",
    "Held on N generated configurations with per-participant clock offsets (INFO_TS rewritten), including an ignored participant that is deleted and whose old announcement arrives late; only the 100 s lease dust-dds announces is exercised.", SIM_NOTE)

add("C03", "E-SIM", "property-based testing: generated writes + fault tape + reader deletion/crash while wait_for_acknowledgments is pending; soundness at the completion instant and bounded completion in virtual time",
    "Held on N generated schedules; bounded liveness only (5 s after heal, lease + 1.5 s after a silent crash).", SIM_NOTE)
add("C04", "E-SIM", "property-based testing: generated pre/post-match writes, KEEP_LAST depth, late TRANSIENT_LOCAL/VOLATILE readers, catch-up fault tape; retained-history model",
    "Held on N generated histories (pre-match history with occasional dispose/unregister, reliable or best-effort late reader); lower bound (retained history arrives, wait_for_historical_data) and upper bound (nothing the KEEP_LAST writer had replaced before the match, no pre-match sample for a VOLATILE reader).", SIM_NOTE)
add("C26", "E-SIM", "property-based testing: generated filter expressions/parameters/samples and arrival groupings (coalesced RTPS messages); presented set == predicate-filtered set",
    "Held on N generated cases over the supported filter language (=, <= on int32/string members), integer values near 0, +-2^24, 10^9 and the i32 limits.", SIM_NOTE)
add("C27", "E-SIM", "property-based testing: generated write bursts against a partitioned/attacked reliable reader; blocking/timeout window and nothing-unacknowledged-dropped oracle, late-joiner depth probe",
    "Held on N generated schedules (occasionally unregistering an instance before writing it).", SIM_NOTE)
add("C29", "E-SIM", "property-based testing: generated lifespans, past source timestamps, partitions forcing late repairs and late joiners; wire monitor bounds the send time of every sample by timestamp + lifespan + one worker period",
    "Held on N generated schedules; send-side oracle plus never-presented for samples expired at write.", SIM_NOTE)

add("C06", "E-SIM", "property-based testing / structure-aware fuzzing in the simulation: random bytes, mutated captured datagrams and structured adversarial RTPS messages (own encoder) spoofing discovered participants; oracle: no panic, CPU bound, allocation bounds, liveness with a never-spoofed newcomer",
    "Held on N hostile datagram sequences: a constructed part (every product of the adversarial value classes of the numeric fields of each submessage kind, DATA_FRAG groups claiming to complete huge samples) and a generated part; regression cases of the repaired defects are replayed first; UDP locator conversion and libFuzzer corpus replay are covered by C07's engine.", SIM_NOTE)

# checks built by helper engines: metadata comes from tools/fragments/<ID>.json
FRAGMENT_ENGINE = {"C08": "E-CODEC", "C14": "E-CODEC", "C38": "E-CODEC", "C34": "E-CHAN", "C42": "E-RT", "C40": "E-GEN", "C41": "E-GEN",
                   "C09": "E-CODEC", "C10": "E-CODEC", "C11": "E-CODEC", "C12": "E-CODEC", "C39": "E-CODEC", "C07": "E-CODEC", "C13": "E-CODEC",
                   "C28": "E-SIM", "C35": "E-SIM", "C36": "E-SIM", "C37": "E-SIM", "C30": "E-SIM", "C31": "E-SIM", "C32": "E-SIM", "C33": "E-SIM"}
READY = set(json.load(open(os.path.join(ROOT, "tools", "ready.json"))))
for _pid, _eng in FRAGMENT_ENGINE.items():
    _fp = os.path.join(ROOT, "tools", "fragments", _pid + ".json")
    if _pid in READY and os.path.exists(_fp) and _pid not in CHECKS:
        _f = json.load(open(_fp))
        add(_pid, _eng, str(_f.get("technique", "property-based testing")), str(_f.get("level_text", "")), str(_f.get("level_note", "")))

# second halves run by the RTPS-object engine (crate rtpsd): appended to technique / note
for _pid in ("C01", "C02", "C05"):
    _fp = os.path.join(ROOT, "tools", "fragments", _pid + ".rtps.json")
    if _pid in CHECKS and os.path.exists(_fp):
        _f = json.load(open(_fp))
        CHECKS[_pid]["technique"] += " || second half (engine E-RTPSD, crate rtpsd, run by the same command): " + str(_f.get("technique", ""))
        CHECKS[_pid]["text"] += " RTPS-object half: " + str(_f.get("level_text", ""))
        CHECKS[_pid]["note"] += " RTPS-object half: " + str(_f.get("level_note", ""))

def main():
    props = [json.loads(l) for l in open(os.path.join(ROOT, "properties.jsonl"))]
    reasons = {}
    rp = os.path.join(ROOT, "tools", "not_applicable.json")
    if os.path.exists(rp):
        reasons = json.load(open(rp))
    checks = []
    na = []
    for p in props:
        pid = p["id"]
        c = CHECKS.get(pid)
        if c is None:
            na.append({"property_id": pid, "reason": reasons.get(pid, "check not built yet in this session (planned in DESIGN.md §4); not claimed until its quick tier runs clean")})
            continue
        checks.append({
            "property_id": pid,
            "quick_cmd": f"./check {pid} quick",
            "thorough_cmd": f"./check {pid} thorough",
            "evidence_file": f"/verif/evidence/{pid}.json",
            "replay_cmd_template": f"./check {pid} quick --replay {{path}}",
            "engine": c["engine"],
            "level_claimed": {"category": "exploration", "text": c["text"], "design_ref": c["ref"]},
            "level_note": c["note"],
            "technique": c["technique"],
        })
    served = {}
    for c in checks:
        served.setdefault(c["engine"], []).append(c["property_id"])
    engines = [dict(e, serves_properties=served.get(e["name"], [])) for e in ENGINES if served.get(e["name"])]
    engines.append({"name": "E-RTPSD", "path": "rtpsd", "serves_properties": ["C01", "C02", "C05"],
                    "kind_free_text": "second half of C01/C02/C05 (run by the same ./check command, evidence merged): RtpsStatefulWriter/Reader objects driven directly by the harness, exhaustive enumeration of small arrival schedules + proptest-generated scenarios, in-process"})
    m = {
        "version": 1,
        "setup_cmd": "./setup.sh",
        "hooks": {
            "guard": "cargo feature verif-hooks (dds/Cargo.toml), off by default",
            "enable": "harness crates depend on dust_dds = { path = \"/repo/dds\", features = [\"verif-hooks\"] }",
            "baseline_off_cmd": "/verif/baseline_off.sh",
            "source_commits": json.load(open(os.path.join(ROOT, "tools", "hook_commits.json"))),
            "add_only": True,
        },
        "engines": engines,
        "checks": checks,
        "notes": "Every check: ./check <ID> <quick|thorough> [--replay file]; honours VERIF_SEED; exit 0 held / 1 VIOLATION / 2 inconclusive. Known findings: /verif/known_findings.json (read-only at run time).",
        "not_applicable": na,
    }
    json.dump(m, open(os.path.join(ROOT, "MANIFEST.json"), "w"), indent=1)
    print(f"claimed {len(checks)}, not claimed {len(na)}")

if __name__ == "__main__":
    main()
