#!/bin/bash
# usage: pair.sh <commit> <runs> <partner>
cd /tmp/base-wt && git checkout -q --detach $1 || exit 2
export CARGO_NET_OFFLINE=true CARGO_TARGET_DIR=/tmp/base-target
cargo nextest run -p dust_dds --test write_read_samples --no-run --offline >/dev/null 2>&1
f=0
for i in $(seq 1 $2); do
  cargo nextest run -p dust_dds --test write_read_samples --no-fail-fast --test-threads 8 --offline -E "test(=volatile_writer_reader_receives_only_new_samples) | test(=$3)" 2>&1 | grep -q "FAIL.*volatile_writer_reader_receives_only_new_samples$" && f=$((f+1))
done
echo "$(git log --oneline -1 | cut -c1-90): failed $f/$2"
