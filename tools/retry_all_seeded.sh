#!/bin/bash
# Re-runs every seeded change against the checks that are recorded as detecting it (meta.json detected_by) on the
# current /repo HEAD and current checks; writes seeded/<name>/latest_run.txt. Sequential; uses /repo's working tree.
cd /verif
for d in seeded/*/; do
  n=$(basename $d)
  [ -n "$1" ] && [[ ! " $* " =~ " $n " ]] && continue
  ids=$(python3 -c "import json;print(' '.join(json.load(open('$d/meta.json')).get('detected_by',[])))" 2>/dev/null)
  [ -z "$ids" ] && continue
  if ! (cd /repo && git apply --check /verif/$d/patch.diff 2>/dev/null); then echo "$n: patch does not apply" | tee $d/latest_run.txt; continue; fi
  tools/try_seeded.sh $n $ids 2>&1 | grep -E "^===|signature|quick:" | cut -c1-200 > $d/latest_run.txt
  echo "repo HEAD $(git -C /repo log --format=%h -1), verif $(git log --format=%h -1)" >> $d/latest_run.txt
  v=$(grep -c "signature" $d/latest_run.txt)
  echo "$n: $ids -> $v signature line(s)"
done
