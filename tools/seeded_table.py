#!/usr/bin/env python3
"""Prints the markdown table of seeded changes for DESIGN.md §11.5 from seeded/*/meta.json."""
import json, glob, os
rows = []
for d in sorted(glob.glob('/verif/seeded/*/')):
    mp = os.path.join(d, 'meta.json')
    if not os.path.exists(mp):
        continue
    m = json.load(open(mp))
    conf = 'yes' if os.path.exists(os.path.join(d, 'confirm.log')) else 'pending'
    rows.append((os.path.basename(d.rstrip('/')), m['property'], m['change'], m['needs_to_manifest'], ', '.join(m.get('detected_by', [])) or 'MISSED', m['checks_run'], conf))
print('| seeded change | property | change | needs, to manifest | detected by | runs | confirmed |')
print('|---|---|---|---|---|---|---|')
for r in rows:
    print('| ' + ' | '.join(x.replace('|', '/').replace('\n', ' ') for x in r) + ' |')
