#!/bin/bash
# confirm seeded changes whose demonstration is a unit-test module inside a source file
export CARGO_NET_OFFLINE=true
for name in "$@"; do
S=/verif/seeded/$name; WT=/tmp/confirm-$name; L=$S/confirm.log; : > $L
rm -rf $WT; git -C /repo worktree add -q --detach $WT HEAD
export CARGO_TARGET_DIR=/tmp/confirm-target
cd $WT && git apply $S/demo_unit_test.diff && cd dds
echo "## demo (unit tests mutant_demo) WITHOUT the change" >> $L
timeout 1500 cargo test --offline --lib mutant_demo 2>&1 | grep -E "^test |test result" | tail -8 >> $L
echo "## apply" >> $L; (cd $WT && git apply $S/patch.diff; git status --short) >> $L 2>&1
echo "## lib unit tests WITH the change (the mutant_demo tests are the demonstration)" >> $L
timeout 1500 cargo test --offline --lib 2>&1 | grep -E "mutant_demo|test result" | tail -8 >> $L
cd /verif; git -C /repo worktree remove --force $WT; echo "confirmed $name"; cat $L
done
