#![feature(alloc_error_hook)]
//! Oracle of the C07 libFuzzer targets, inside the target process:
//! * the decoder call runs under `catch_unwind`; a panic becomes the signature `C07:panic:<file>:<normalised msg>`;
//! * the counting allocator (same file as the `disc` engine uses) bounds the peak heap growth of the call by
//!   1024*len + 1 MiB and refuses single requests above that bound (reported as peak-over-bound; > 256 MiB as
//!   single-request-over-cap); an allocation-error hook (nightly feature
//!   `alloc_error_hook`) panics, so a refused request unwinds instead of aborting and is judged like a panic (`C07:alloc:single-request-over-cap:<decoder>`);
//! * signatures listed for C07 in /verif/known_findings.json (read once at start-up, `$VERIF_ROOT` honoured) are
//!   counted and skipped, so a campaign does not stop at a known crash; `VERIF_FUZZ_STRICT=1` disables the allow-list
//!   (replay of a saved artifact shows the crash);
//! * anything else prints `VERIF-FUZZ violation <signature>` and aborts, which makes libFuzzer save the input.
//! The `disc` engine converts every saved artifact to its JSON replay format and confirms it through its own
//! deterministic forked path before reporting; the signature reported comes from there.

#[path = "/verif/disc/src/shared/mod.rs"]
pub mod shared;
#[path = "/verif/vcore/src/alloc.rs"]
pub mod valloc;

use shared::{decoders, guard};
use std::sync::{Mutex, OnceLock};

#[global_allocator]
static A: valloc::Counting = valloc::Counting;

pub const SINGLE_REQUEST_CAP: usize = 256 << 20;

struct State {
    known: Vec<String>,
    strict: bool,
    hits: Mutex<Vec<(String, u64)>>,
}

static STATE: OnceLock<State> = OnceLock::new();

extern "C" fn at_exit() {
    if let Some(st) = STATE.get() {
        if let Ok(h) = st.hits.lock() {
            for (sig, n) in h.iter() {
                eprintln!("VERIF-FUZZ allow-listed {n} {sig}");
            }
        }
    }
}

fn state() -> &'static State {
    STATE.get_or_init(|| {
        guard::install_hook();
        std::alloc::set_alloc_error_hook(|layout| panic!("memory allocation of {} bytes failed", layout.size()));
        let root = std::env::var("VERIF_ROOT").unwrap_or_else(|_| "/verif".to_string());
        let text = std::fs::read_to_string(format!("{root}/known_findings.json")).unwrap_or_default();
        let known = guard::known_signatures(&text, "C07");
        let strict = std::env::var("VERIF_FUZZ_STRICT").map(|v| v != "0" && !v.is_empty()).unwrap_or(false);
        eprintln!("VERIF-FUZZ start: {} allow-listed signatures, strict={strict}", known.len());
        unsafe {
            libc::atexit(at_exit);
        }
        State { known, strict, hits: Mutex::new(vec![]) }
    })
}

pub fn alloc_bound(len: usize) -> usize {
    1024 * len + (1 << 20)
}

pub fn run(target: &'static str, data: &[u8]) {
    let st = state();
    let Some((decoder, bytes)) = decoders::split_fuzz_input(target, data) else {
        return;
    };
    valloc::clear_refused();
    valloc::set_single_request_cap(SINGLE_REQUEST_CAP.min(alloc_bound(bytes.len())));
    valloc::reset_peak();
    let base = valloc::current();
    let r = std::panic::catch_unwind(|| decoders::decode(decoder, bytes));
    let growth = valloc::peak().saturating_sub(base);
    let refused = valloc::refused();
    valloc::set_single_request_cap(usize::MAX);
    let verdict: Option<String> = match r {
        Err(_) => {
            let (file, msg) = guard::take_last_panic().unwrap_or(("?".into(), "?".into()));
            if refused > SINGLE_REQUEST_CAP {
                Some(format!("C07:alloc:single-request-over-cap:{}", decoder.label()))
            } else if refused > 0 {
                Some(format!("C07:alloc:peak-over-bound:{}", decoder.label()))
            } else {
                Some(guard::panic_signature("C07", &file, &msg))
            }
        }
        Ok(_) => {
            if growth > alloc_bound(bytes.len()) {
                Some(format!("C07:alloc:peak-over-bound:{}", decoder.label()))
            } else {
                None
            }
        }
    };
    if let Some(sig) = verdict {
        if !st.strict && st.known.iter().any(|k| *k == sig) {
            if let Ok(mut h) = st.hits.lock() {
                match h.iter_mut().find(|(s, _)| *s == sig) {
                    Some((_, n)) => *n += 1,
                    None => h.push((sig, 1)),
                }
            }
            return;
        }
        eprintln!("VERIF-FUZZ violation {sig} (decoder {}, {} bytes)", decoder.name(), bytes.len());
        std::process::abort();
    }
}
