#![no_main]
//! libFuzzer target `discovery_spdp` (property C07); the oracle is in verif_fuzz::run.
use libfuzzer_sys::fuzz_target;

fuzz_target!(|data: &[u8]| {
    verif_fuzz::run("discovery_spdp", data);
});
