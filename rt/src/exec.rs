//! Executes one configuration on the real `dust_dds::std_runtime` and judges what was observed.
//!
//! Every oracle clause is chosen so that OS scheduling noise alone cannot falsify it:
//!  (a) completion instant - instant taken before the first poll >= requested duration (exact);
//!  (b) bounded liveness with a generous wall bound (liveness verdicts need 3/3 reproduction);
//!  (c) a sleep dropped >= 250 ms (measured) before its deadline never has a waker invoked afterwards;
//!  (d) block_on / block_timeout(Ok) return the future's output;
//!  (e) Timeout => elapsed >= duration (exact); measured-ready-early (50x and 1 s margin) => Ok.

use crate::model::*;
use dust_dds::{
    infrastructure::error::DdsError,
    runtime::{DdsRuntime, Timer},
    std_runtime::{
        StdRuntime,
        executor::{Executor, ExecutorHandle, block_on, block_timeout},
        timer::{Sleep, TimerDriver, TimerHandle},
    },
};
use serde_json::{Value, json};
use std::{
    future::Future,
    panic::{AssertUnwindSafe, catch_unwind},
    pin::Pin,
    sync::{
        Arc, Barrier, Mutex,
        atomic::{AtomicBool, AtomicU64, Ordering::SeqCst},
        mpsc,
    },
    task::{Context, Poll, Wake, Waker},
    time::{Duration, Instant},
};

pub const GROUP_TIMEOUT: Duration = Duration::from_secs(30);
/// a judged drop must be at least this far (measured) from the earliest possible deadline
pub const DROP_MARGIN: Duration = Duration::from_millis(250);
/// wakers of dropped sleeps are watched until this long after the deadline they would have had
pub const DROP_WATCH_PAST_DEADLINE: Duration = Duration::from_millis(100);

// ------------------------------------------------------------------------------------------
// panic bookkeeping

thread_local! { static LAST_PANIC: std::cell::RefCell<Option<(String, String)>> = const { std::cell::RefCell::new(None) }; }
pub static FOREIGN_PANICS: Mutex<Vec<(String, String, String)>> = Mutex::new(Vec::new());

pub fn install_panic_hook() {
    std::panic::set_hook(Box::new(|info| {
        let file = info.location().map(|l| l.file().to_string()).unwrap_or_default();
        let msg = if let Some(s) = info.payload().downcast_ref::<&str>() {
            s.to_string()
        } else if let Some(s) = info.payload().downcast_ref::<String>() {
            s.clone()
        } else {
            "<non-string panic>".to_string()
        };
        let name = std::thread::current().name().unwrap_or("").to_string();
        if name.starts_with("rt-") {
            LAST_PANIC.with(|p| *p.borrow_mut() = Some((file, msg)));
        } else {
            FOREIGN_PANICS.lock().unwrap_or_else(|e| e.into_inner()).push((name, file, msg));
        }
    }));
}

pub fn panic_signature(file: &str, msg: &str) -> String {
    let file = file.rsplit_once("/src/").map(|x| x.1).unwrap_or(file);
    let mut m = String::new();
    let mut in_digits = false;
    for c in msg.chars() {
        if c.is_ascii_digit() {
            if !in_digits {
                m.push('N');
            }
            in_digits = true;
        } else {
            in_digits = false;
            m.push(c);
        }
    }
    let m: String = m.chars().take(80).collect();
    format!("C42:panic:{file}:{m}")
}

// ------------------------------------------------------------------------------------------
// wakers

pub struct EntryWake {
    latest_gen: AtomicU64,
    need_poll: AtomicBool,
    /// all invocations of any waker ever handed to this sleep
    total: AtomicU64,
    /// invocations of wakers that were not the latest one at that moment
    stale: AtomicU64,
    parent: Arc<Mutex<Option<Waker>>>,
}

struct GenWaker {
    generation: u64,
    shared: Arc<EntryWake>,
}

impl Wake for GenWaker {
    fn wake(self: Arc<Self>) {
        self.wake_by_ref()
    }
    fn wake_by_ref(self: &Arc<Self>) {
        self.shared.total.fetch_add(1, SeqCst);
        if self.generation == self.shared.latest_gen.load(SeqCst) {
            self.shared.need_poll.store(true, SeqCst);
            let w = self.shared.parent.lock().unwrap().clone();
            if let Some(w) = w {
                w.wake_by_ref();
            }
        } else {
            self.shared.stale.fetch_add(1, SeqCst);
        }
    }
}

fn new_entry_wake(parent: &Arc<Mutex<Option<Waker>>>) -> Arc<EntryWake> {
    Arc::new(EntryWake {
        latest_gen: AtomicU64::new(0),
        need_poll: AtomicBool::new(false),
        total: AtomicU64::new(0),
        stale: AtomicU64::new(0),
        parent: parent.clone(),
    })
}

fn next_waker(w: &Arc<EntryWake>) -> Waker {
    let generation = w.latest_gen.fetch_add(1, SeqCst) + 1;
    Waker::from(Arc::new(GenWaker { generation, shared: w.clone() }))
}

// ------------------------------------------------------------------------------------------
// the group future: all sleeps of one thread

pub struct DropRec {
    t_done: Instant,
    count_at_drop: u64,
    at_end: bool,
}

pub struct SlotRec {
    idx: usize,
    spec: Entry,
    t0: Option<Instant>,
    t1: Option<Instant>,
    polls: u32,
    dropped: Option<DropRec>,
    wake: Arc<EntryWake>,
}

struct Slot {
    idx: usize,
    spec: Entry,
    main: Option<Sleep>,
    wake: Arc<EntryWake>,
    cur_waker: Option<Waker>,
    aux: Option<Pin<Box<dyn Future<Output = ()> + Send>>>,
    aux_wake: Arc<EntryWake>,
    aux_waker: Waker,
    aux_left: u8,
    started: bool,
    t0: Option<Instant>,
    t1: Option<Instant>,
    polls: u32,
    dropped: Option<DropRec>,
    done: bool,
    background: bool,
}

pub struct Group {
    timer: TimerHandle,
    parent: Arc<Mutex<Option<Waker>>>,
    slots: Vec<Slot>,
}

impl Group {
    fn new(timer: &TimerHandle, entries: Vec<(usize, Entry)>) -> Group {
        let parent = Arc::new(Mutex::new(None));
        let mut slots = vec![];
        for (idx, spec) in entries {
            let wake = new_entry_wake(&parent);
            let aux_wake = new_entry_wake(&parent);
            let aux_waker = next_waker(&aux_wake);
            // the main sleep goes through the inherent API, the auxiliary one through the `Timer` trait
            let main = Some(timer.sleep(spec.dur.get()));
            let (aux, aux_left): (Option<Pin<Box<dyn Future<Output = ()> + Send>>>, u8) = match spec.aux {
                Aux::None => (None, 0),
                Aux::Drop { after_us } => {
                    (Some(aux_sleep(timer, after_us)), 1)
                }
                Aux::Repoll { after_us, times } => {
                    (Some(aux_sleep(timer, after_us)), times.max(1))
                }
            };
            let background = spec.dur.is_huge() && !matches!(spec.aux, Aux::Drop { .. });
            slots.push(Slot {
                idx,
                spec,
                main,
                wake,
                cur_waker: None,
                aux,
                aux_wake,
                aux_waker,
                aux_left,
                started: false,
                t0: None,
                t1: None,
                polls: 0,
                dropped: None,
                done: false,
                background,
            });
        }
        Group { timer: timer.clone(), parent, slots }
    }
}

/// auxiliary sleeps go through the `Timer` trait of the runtime (`delay`), as dust-dds' own code does
fn aux_sleep(timer: &TimerHandle, after_us: u32) -> Pin<Box<dyn Future<Output = ()> + Send>> {
    let mut t = timer.clone();
    Box::pin(async move { t.delay(Duration::from_micros(after_us as u64)).await })
}

fn poll_main(s: &mut Slot) {
    let Some(main) = s.main.as_mut() else { return };
    if s.spec.fresh_waker || s.cur_waker.is_none() {
        s.cur_waker = Some(next_waker(&s.wake));
    }
    let w = s.cur_waker.clone().unwrap();
    let mut cx = Context::from_waker(&w);
    s.polls += 1;
    if Pin::new(main).poll(&mut cx).is_ready() {
        s.t1 = Some(Instant::now());
        s.main = None;
        s.aux = None;
        s.done = true;
    }
}

fn poll_aux(s: &mut Slot, timer: &TimerHandle) {
    loop {
        let Some(aux) = s.aux.as_mut() else { return };
        let w = s.aux_waker.clone();
        let mut cx = Context::from_waker(&w);
        if aux.as_mut().poll(&mut cx).is_pending() {
            return;
        }
        s.aux = None;
        match s.spec.aux {
            Aux::None => return,
            Aux::Drop { .. } => {
                let main = s.main.take();
                drop(main);
                let t_done = Instant::now();
                let count_at_drop = s.wake.total.load(SeqCst);
                s.dropped = Some(DropRec { t_done, count_at_drop, at_end: false });
                s.done = true;
                return;
            }
            Aux::Repoll { after_us, .. } => {
                s.aux_left = s.aux_left.saturating_sub(1);
                poll_main(s);
                if s.done || s.aux_left == 0 {
                    return;
                }
                s.aux = Some(aux_sleep(timer, after_us));
            }
        }
    }
}

impl Future for Group {
    type Output = Vec<SlotRec>;
    fn poll(self: Pin<&mut Self>, cx: &mut Context<'_>) -> Poll<Self::Output> {
        let this = self.get_mut();
        {
            let mut p = this.parent.lock().unwrap();
            if !matches!(&*p, Some(w) if w.will_wake(cx.waker())) {
                *p = Some(cx.waker().clone());
            }
        }
        let timer = this.timer.clone();
        let mut pending = false;
        for s in this.slots.iter_mut() {
            if s.done {
                continue;
            }
            if !s.started {
                s.started = true;
                s.t0 = Some(Instant::now());
                poll_main(s);
                if !s.done {
                    poll_aux(s, &timer);
                }
            } else {
                if s.wake.need_poll.swap(false, SeqCst) {
                    poll_main(s);
                }
                if !s.done && s.aux.is_some() && s.aux_wake.need_poll.swap(false, SeqCst) {
                    poll_aux(s, &timer);
                }
            }
            if !s.done && !s.background {
                pending = true;
            }
        }
        if pending {
            return Poll::Pending;
        }
        let mut out = vec![];
        for mut s in std::mem::take(&mut this.slots) {
            if let Some(main) = s.main.take() {
                // sleeps that cannot elapse are dropped when everything else of the thread is done
                drop(main);
                let t_done = Instant::now();
                let count_at_drop = s.wake.total.load(SeqCst);
                s.dropped = Some(DropRec { t_done, count_at_drop, at_end: true });
            }
            out.push(SlotRec {
                idx: s.idx,
                spec: s.spec,
                t0: s.t0,
                t1: s.t1,
                polls: s.polls,
                dropped: s.dropped,
                wake: s.wake,
            });
        }
        Poll::Ready(out)
    }
}

// ------------------------------------------------------------------------------------------
// block_on / block_timeout probes

struct ThreadFutShared {
    done: AtomicBool,
    waker: Mutex<Option<Waker>>,
    ready_at: Mutex<Option<Instant>>,
}

struct ThreadFut {
    sh: Arc<ThreadFutShared>,
    v: u64,
}

impl Future for ThreadFut {
    type Output = u64;
    fn poll(self: Pin<&mut Self>, cx: &mut Context<'_>) -> Poll<u64> {
        *self.sh.waker.lock().unwrap() = Some(cx.waker().clone());
        if self.sh.done.load(SeqCst) { Poll::Ready(self.v) } else { Poll::Pending }
    }
}

#[derive(Debug)]
enum BlockResult {
    Ok(u64),
    Timeout,
    OtherError(String),
}

struct BlockObs {
    spec: Block,
    timeout: Option<Duration>,
    result: BlockResult,
    elapsed: Duration,
    /// measured: when the future became ready, relative to the instant before the call
    ready_rel: Option<Duration>,
}

fn timeout_of(b: &Block) -> Option<Duration> {
    let d = match b.fut {
        Fut::AfterThread { d_us } | Fut::AfterSleep { d_us } => Duration::from_micros(d_us as u64),
        _ => Duration::ZERO,
    };
    match b.tmo {
        Tmo::None => None,
        Tmo::SmallUs(u) => Some(Duration::from_micros(u as u64)),
        Tmo::Large => Some((d * 50).max(d + Duration::from_secs(1)) + Duration::from_millis(100)),
        Tmo::Huge(k) => Some(HUGE[k as usize % HUGE.len()].1),
    }
}

fn run_block(b: &Block, timer: &TimerHandle) -> BlockObs {
    let timeout = timeout_of(b);
    let v = b.value;
    let mut sh_opt = None;
    let fut: Pin<Box<dyn Future<Output = u64> + Send>> = match b.fut {
        Fut::Ready => Box::pin(std::future::ready(v)),
        Fut::Never => Box::pin(std::future::pending::<u64>()),
        Fut::AfterSleep { d_us } => {
            let s = timer.sleep(Duration::from_micros(d_us as u64));
            Box::pin(async move {
                s.await;
                v
            })
        }
        Fut::AfterThread { d_us } => {
            let sh = Arc::new(ThreadFutShared {
                done: AtomicBool::new(false),
                waker: Mutex::new(None),
                ready_at: Mutex::new(None),
            });
            sh_opt = Some(sh.clone());
            let sh2 = sh.clone();
            std::thread::Builder::new()
                .name("rt-helper".into())
                .stack_size(64 * 1024)
                .spawn(move || {
                    std::thread::sleep(Duration::from_micros(d_us as u64));
                    *sh2.ready_at.lock().unwrap() = Some(Instant::now());
                    sh2.done.store(true, SeqCst);
                    let w = sh2.waker.lock().unwrap().take();
                    if let Some(w) = w {
                        w.wake();
                    }
                })
                .expect("spawn helper");
            Box::pin(ThreadFut { sh, v })
        }
    };
    let t_call = Instant::now();
    let result = match timeout {
        None => BlockResult::Ok(block_on(fut)),
        Some(t) => match block_timeout(t, fut) {
            Ok(x) => BlockResult::Ok(x),
            Err(DdsError::Timeout) => BlockResult::Timeout,
            Err(e) => BlockResult::OtherError(format!("{e:?}")),
        },
    };
    let elapsed = t_call.elapsed();
    let ready_rel = match (&b.fut, &sh_opt) {
        (Fut::Ready, _) => Some(Duration::ZERO),
        (_, Some(sh)) => sh.ready_at.lock().unwrap().map(|r| r.saturating_duration_since(t_call)),
        _ => None,
    };
    BlockObs { spec: b.clone(), timeout, result, elapsed, ready_rel }
}

// ------------------------------------------------------------------------------------------
// one thread of the configuration

struct ThreadOut {
    t: usize,
    recs: Vec<SlotRec>,
    /// verdicts found by the thread itself (driver level)
    verdicts: Vec<Verdict>,
    blocks: Vec<BlockObs>,
    panic: Option<(String, String)>,
}

#[derive(Clone, Debug)]
pub struct Verdict {
    pub sig: String,
    pub what: String,
    /// bounded-liveness verdicts are never reported unless they reproduce
    pub liveness: bool,
}

fn v(sig: &str, what: String) -> Verdict {
    Verdict { sig: sig.to_string(), what, liveness: false }
}

fn run_group(
    driver: Driver,
    group: Group,
    value: u64,
    spawner: &ExecutorHandle,
    verdicts: &mut Vec<Verdict>,
) -> Option<Vec<SlotRec>> {
    match driver {
        Driver::BlockOn => {
            let (recs, out) = block_on(async move {
                let r = group.await;
                (r, value)
            });
            if out != value {
                verdicts.push(v("C42:block-on-output", format!("block_on returned {out} for a future whose output is {value}")));
            }
            Some(recs)
        }
        Driver::BlockTimeout => {
            let t_call = Instant::now();
            let r = block_timeout(GROUP_TIMEOUT, async move {
                let r = group.await;
                (r, value)
            });
            let elapsed = t_call.elapsed();
            match r {
                Ok((recs, out)) => {
                    if out != value {
                        verdicts.push(v(
                            "C42:block-timeout-output",
                            format!("block_timeout returned Ok({out}) for a future whose output is {value}"),
                        ));
                    }
                    Some(recs)
                }
                Err(DdsError::Timeout) => {
                    if elapsed < GROUP_TIMEOUT {
                        verdicts.push(v(
                            "C42:block-timeout-early-timeout",
                            format!("block_timeout({GROUP_TIMEOUT:?}) around a group of sleeps returned Timeout after only {elapsed:?}"),
                        ));
                    } else {
                        verdicts.push(Verdict {
                            sig: "C42:no-completion".into(),
                            what: format!("sleeps (<= 300 ms) under block_timeout({GROUP_TIMEOUT:?}) did not complete: Timeout after {elapsed:?}"),
                            liveness: true,
                        });
                    }
                    None
                }
                Err(e) => {
                    verdicts.push(v("C42:block-timeout-error", format!("block_timeout returned Err({e:?})")));
                    None
                }
            }
        }
        Driver::Executor => {
            let (tx, rx) = mpsc::channel();
            let h = spawner.spawn(async move {
                let r = group.await;
                let _ = tx.send(r);
            });
            dust_dds::runtime::TaskHandle::join(&h);
            rx.recv().ok()
        }
    }
}

// ------------------------------------------------------------------------------------------
// the whole configuration

pub struct RunResult {
    pub verdicts: Vec<Verdict>,
    pub classes: Vec<String>,
    pub nontrivial: bool,
    pub detail: Value,
    pub wall: Duration,
    pub hung: bool,
}

impl RunResult {
    /// the verdict that names the case: exact clauses before liveness ones
    pub fn primary(&self) -> Option<&Verdict> {
        self.verdicts.iter().find(|v| !v.liveness).or(self.verdicts.first())
    }
}

pub fn shape(case: &Case) -> &'static str {
    if case.entries.iter().any(|(_, e)| e.dur.is_huge())
        || case.blocks.iter().any(|(_, _, b)| matches!(b.tmo, Tmo::Huge(_)))
    {
        "with-unreachable-deadline"
    } else if case.entries.iter().any(|(_, e)| e.fresh_waker && matches!(e.aux, Aux::Repoll { .. })) {
        "repolled-with-new-waker"
    } else if case.entries.iter().any(|(_, e)| matches!(e.aux, Aux::Repoll { .. })) {
        "repolled"
    } else if case.entries.iter().any(|(_, e)| matches!(e.aux, Aux::Drop { .. })) {
        "with-dropped-sleep"
    } else {
        "plain"
    }
}

/// `watch_drops = false` skips the waiting part of clause (c) (used while shrinking towards another clause).
pub fn run_case(case: &Case, wall_bound: Duration, verbose: bool, watch_drops: bool) -> RunResult {
    let case = case.clone().normalised();
    let start = Instant::now();
    let n = case.nthreads as usize;
    let timer_driver = TimerDriver::new();
    let executor = Executor::new();
    let runtime = StdRuntime::new(executor, timer_driver);
    let barrier = Arc::new(Barrier::new(n));
    let (tx, rx) = mpsc::channel::<ThreadOut>();
    for t in 0..n {
        let entries: Vec<(usize, Entry)> = case
            .entries
            .iter()
            .enumerate()
            .filter(|(_, (c, _))| case.thread_of(*c) == t)
            .map(|(i, (_, e))| (i, e.clone()))
            .collect();
        let blocks_before: Vec<Block> =
            case.blocks.iter().filter(|(c, first, _)| case.thread_of(*c) == t && *first).map(|x| x.2.clone()).collect();
        let blocks_after: Vec<Block> =
            case.blocks.iter().filter(|(c, first, _)| case.thread_of(*c) == t && !*first).map(|x| x.2.clone()).collect();
        let driver = case.drivers[t];
        let value = case.values[t];
        let timer = runtime.timer();
        let spawner = runtime.spawner();
        let barrier = barrier.clone();
        let tx = tx.clone();
        std::thread::Builder::new()
            .name(format!("rt-{t}"))
            .stack_size(256 * 1024)
            .spawn(move || {
                let mut out = ThreadOut { t, recs: vec![], verdicts: vec![], blocks: vec![], panic: None };
                barrier.wait();
                let r = catch_unwind(AssertUnwindSafe(|| {
                    let group = Group::new(&timer, entries);
                    for b in &blocks_before {
                        out.blocks.push(run_block(b, &timer));
                    }
                    if !group.slots.is_empty() {
                        if let Some(recs) = run_group(driver, group, value, &spawner, &mut out.verdicts) {
                            out.recs = recs;
                        }
                    }
                    for b in &blocks_after {
                        out.blocks.push(run_block(b, &timer));
                    }
                }));
                if r.is_err() {
                    out.panic = Some(LAST_PANIC.with(|p| p.borrow_mut().take()).unwrap_or_default());
                }
                let _ = tx.send(out);
            })
            .expect("spawn thread");
    }
    drop(tx);
    let mut outs: Vec<ThreadOut> = vec![];
    let mut verdicts: Vec<Verdict> = vec![];
    let deadline = start + wall_bound;
    while outs.len() < n {
        let left = deadline.saturating_duration_since(Instant::now());
        match rx.recv_timeout(left) {
            Ok(o) => outs.push(o),
            Err(_) => break,
        }
    }
    let hung = outs.len() < n;
    if hung {
        let done: Vec<usize> = outs.iter().map(|o| o.t).collect();
        verdicts.push(Verdict {
            sig: "C42:no-completion".into(),
            what: format!(
                "{} of {} threads did not finish their sleeps / block_on calls within {:?} (finished: {:?}); longest finite sleep is 300 ms",
                n - outs.len(),
                n,
                wall_bound,
                done
            ),
            liveness: true,
        });
    }
    outs.sort_by_key(|o| o.t);

    // (c): watch the wakers of dropped sleeps until past the deadline they would have had
    let mut watch_until = Instant::now();
    for o in &outs {
        for r in &o.recs {
            if let (Some(d), Some(t0)) = (&r.dropped, r.t0) {
                let dur = r.spec.dur.get();
                let eligible = t0.checked_add(dur).map(|dl| dl.saturating_duration_since(d.t_done) >= DROP_MARGIN).unwrap_or(true);
                if eligible && !r.spec.dur.is_huge() {
                    if let Some(u) = t0.checked_add(dur + DROP_WATCH_PAST_DEADLINE) {
                        watch_until = watch_until.max(u);
                    }
                }
            }
        }
    }
    if !hung && watch_drops {
        let left = watch_until.saturating_duration_since(Instant::now());
        if !left.is_zero() {
            std::thread::sleep(left);
        }
    }

    let mut classes: Vec<String> = vec![];
    let mut n_dropped = 0u64;
    let mut n_dropped_judged = 0u64;
    let mut n_completed = 0u64;
    let mut n_stale = 0u64;
    let mut min_slack: Option<Duration> = None;
    let mut max_late = Duration::ZERO;
    let mut delayed_timeout_block = false;
    let mut block_detail = vec![];
    for o in &mut outs {
        verdicts.append(&mut o.verdicts);
        if let Some((file, msg)) = &o.panic {
            verdicts.push(v(&panic_signature(file, msg), format!("thread {} panicked at {file}: {msg}", o.t)));
        }
        for r in &o.recs {
            let dur = r.spec.dur.get();
            n_stale += r.wake.stale.load(SeqCst);
            if let (Some(t0), Some(t1)) = (r.t0, r.t1) {
                n_completed += 1;
                let took = t1.duration_since(t0);
                if took < dur {
                    verdicts.push(v(
                        "C42:sleep-early",
                        format!(
                            "sleep #{} of {:?} completed {:?} after the instant taken before its first poll ({} polls)",
                            r.idx, dur, took, r.polls
                        ),
                    ));
                } else {
                    let slack = took - dur;
                    min_slack = Some(min_slack.map_or(slack, |m| m.min(slack)));
                    max_late = max_late.max(slack);
                }
            }
            if let (Some(d), Some(t0)) = (&r.dropped, r.t0) {
                n_dropped += 1;
                let margin = t0.checked_add(dur).map(|dl| dl.saturating_duration_since(d.t_done));
                let eligible = margin.map(|m| m >= DROP_MARGIN).unwrap_or(true);
                if eligible {
                    n_dropped_judged += 1;
                    let now_total = r.wake.total.load(SeqCst);
                    if now_total > d.count_at_drop {
                        verdicts.push(v(
                            "C42:dropped-sleep-woke",
                            format!(
                                "sleep #{} of {:?} was dropped {:?} after its first poll ({}), yet its waker was invoked {} time(s) after the drop",
                                r.idx,
                                dur,
                                d.t_done.duration_since(t0),
                                if d.at_end { "when its thread was done" } else { "select pattern" },
                                now_total - d.count_at_drop
                            ),
                        ));
                    }
                }
            }
        }
        for b in &o.blocks {
            let kind = match (&b.spec.fut, &b.spec.tmo) {
                (_, Tmo::None) => "block_on",
                (Fut::Never, _) => "block_timeout_never",
                (Fut::Ready, _) => "block_timeout_ready",
                _ => "block_timeout_delayed",
            };
            if kind == "block_timeout_delayed" {
                delayed_timeout_block = true;
            }
            let res = match &b.result {
                BlockResult::Ok(_) => "ok",
                BlockResult::Timeout => "timeout",
                BlockResult::OtherError(_) => "error",
            };
            classes.push(format!("{kind}:{res}"));
            if verbose || block_detail.len() < 3 {
                block_detail.push(json!({"fut": format!("{:?}", b.spec.fut), "timeout": format!("{:?}", b.timeout),
                    "result": format!("{:?}", b.result), "elapsed": format!("{:?}", b.elapsed), "ready_after": format!("{:?}", b.ready_rel)}));
            }
            match (&b.result, b.timeout) {
                (BlockResult::Ok(x), t) => {
                    if *x != b.spec.value {
                        let s = if t.is_none() { "C42:block-on-output" } else { "C42:block-timeout-output" };
                        verdicts.push(v(s, format!("returned {x}, the future's output is {}", b.spec.value)));
                    }
                }
                (BlockResult::Timeout, Some(t)) => {
                    if b.elapsed < t {
                        verdicts.push(v(
                            "C42:block-timeout-early-timeout",
                            format!("block_timeout({t:?}, {:?}) returned Timeout after only {:?}", b.spec.fut, b.elapsed),
                        ));
                    } else if let Some(r) = b.ready_rel {
                        if t >= r * 50 && t.saturating_sub(r) >= Duration::from_secs(1) {
                            classes.push("e2_judged".into());
                            verdicts.push(v(
                                "C42:block-timeout-spurious-timeout",
                                format!("block_timeout({t:?}) returned Timeout although the future was ready (and woke its waker) {r:?} after the call"),
                            ));
                        }
                    } else if matches!(b.spec.fut, Fut::AfterSleep { .. }) && matches!(b.spec.tmo, Tmo::Large) {
                        verdicts.push(Verdict {
                            sig: "C42:no-completion".into(),
                            what: format!("block_timeout({t:?}) around {:?} returned Timeout after {:?}", b.spec.fut, b.elapsed),
                            liveness: true,
                        });
                    }
                }
                (BlockResult::Timeout, None) => {}
                (BlockResult::OtherError(e), _) => {
                    verdicts.push(v("C42:block-timeout-error", format!("block_timeout returned Err({e}) for {:?}", b.spec.fut)));
                }
            }
            if let (BlockResult::Ok(_), Some(t), Some(r)) = (&b.result, b.timeout, b.ready_rel) {
                if t >= r * 50 && t.saturating_sub(r) >= Duration::from_secs(1) {
                    classes.push("e2_judged".into());
                }
            }
        }
    }

    // classes
    let total = case.entries.len();
    classes.push(format!("threads:{}", n));
    classes.push(
        match total {
            0..=1 => "sleeps:1",
            2..=9 => "sleeps:2-9",
            10..=49 => "sleeps:10-49",
            50..=99 => "sleeps:50-99",
            _ => "sleeps:100-200",
        }
        .to_string(),
    );
    for t in 0..n {
        if case.entries.iter().any(|(c, _)| case.thread_of(*c) == t) {
            classes.push(format!("driver:{:?}", case.drivers[t]));
        }
    }
    if n_dropped > 0 {
        classes.push("has_dropped".into());
    }
    if n_dropped_judged > 0 {
        classes.push("has_dropped_judged".into());
    }
    if case.entries.iter().any(|(_, e)| e.dur == Dur::Us(0)) {
        classes.push("zero_duration".into());
    }
    if case.entries.iter().any(|(_, e)| e.dur.is_huge()) {
        classes.push("huge_duration".into());
    }
    if case.entries.iter().any(|(_, e)| matches!(e.aux, Aux::Repoll { .. })) {
        classes.push("repolled".into());
    }
    if case.entries.iter().any(|(_, e)| e.fresh_waker) {
        classes.push("fresh_waker".into());
    }
    if n_stale > 0 {
        classes.push("stale_waker_also_woken".into());
    }
    {
        let mut durs: Vec<&Dur> = case.entries.iter().map(|(_, e)| &e.dur).filter(|d| matches!(d, Dur::Us(_))).collect();
        durs.sort_by_key(|d| if let Dur::Us(u) = d { *u } else { 0 });
        let mut best = 0;
        let mut run = 0;
        for i in 0..durs.len() {
            run = if i > 0 && durs[i] == durs[i - 1] { run + 1 } else { 1 };
            best = best.max(run);
        }
        if best >= 5 {
            classes.push("identical_durations>=5".into());
        }
    }
    if hung {
        classes.push("hung".into());
    }
    // one count per configuration and class
    classes.sort();
    classes.dedup();
    let nontrivial = (total >= 2 && n_dropped > 0) || delayed_timeout_block;

    // clean up the runtime threads (best effort; not possible after a hang)
    if !hung {
        let spawner = runtime.spawner();
        let (ttx, trx) = mpsc::channel();
        let h = spawner.spawn(async move {
            let _ = ttx.send(std::thread::current());
        });
        let th = trx.recv_timeout(Duration::from_secs(5)).ok();
        drop(h);
        drop(spawner);
        drop(outs);
        drop(runtime);
        if let Some(th) = th {
            th.unpark();
        }
    } else {
        std::mem::forget(runtime);
    }

    let detail = json!({
        "threads": n, "sleeps": total, "completed": n_completed, "dropped": n_dropped, "dropped_judged": n_dropped_judged,
        "min_completion_minus_duration": format!("{:?}", min_slack), "max_completion_minus_duration": format!("{:?}", max_late),
        "stale_waker_invocations": n_stale, "blocks": block_detail,
        "verdicts": verdicts.iter().map(|v| format!("{}: {}", v.sig, v.what)).collect::<Vec<_>>(),
    });
    RunResult { verdicts, classes, nontrivial, detail, wall: start.elapsed(), hung }
}
