fn main() {
    eprintln!("engine rt: not built yet");
    std::process::exit(2);
}
