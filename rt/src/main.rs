//! E-RT: real-time property stress of dust-dds' std runtime (property C42).
//!
//! `rt C42 <quick|thorough> [--replay <file>]`
//!
//! Configurations are drawn from a proptest runner seeded from VERIF_SEED, executed concurrently
//! (each on its own `StdRuntime`: the oracle clauses do not depend on how loaded the machine is),
//! a failing configuration is re-run 3x and only reported when it fails every time, then shrunk
//! with proptest's value tree.

mod backlog;
mod exec;
mod model;

use exec::{RunResult, Verdict, run_case};
use model::{Case, case_strategy};
use proptest::strategy::{Strategy, ValueTree};
use serde_json::{Value, json};
use std::{
    sync::{Mutex, atomic::{AtomicUsize, Ordering::SeqCst}},
    time::Duration,
};
use vcore::{Failure, Known, Meta, Report};

const RULE: &str = "a configuration counts when it has >= 2 concurrent sleeps of which at least one was actually dropped before completing, or a block_timeout around a future that becomes ready only after a delay";
const ASSUMPTIONS: &[&str] = &[
    "real clock, real threads: OS preemption points are not explored, only sampled",
    "bounded liveness: 'always completes' is judged with a 20 s wall bound and needs 3/3 reproduction",
    "a drop is judged only when it happened >= 250 ms (measured) before the earliest possible deadline; the window in which the timer thread may already be waking a sleep that is being dropped is not judged",
    "durations whose deadline is not representable are only checked for 'does not complete / does not panic / does not disturb other sleeps' during the test window",
];

fn wall_bound() -> Duration {
    Duration::from_millis(std::env::var("RT_WALL_BOUND_MS").ok().and_then(|s| s.parse().ok()).unwrap_or(20_000))
}

/// Runs the case `n` times concurrently; true when every run shows the signature.
fn reproduces(case: &Case, sig: &str, n: usize) -> (usize, Vec<RunResult>) {
    reproduces_within(case, sig, n, wall_bound())
}

fn reproduces_within(case: &Case, sig: &str, n: usize, bound: Duration) -> (usize, Vec<RunResult>) {
    let watch = sig == "C42:dropped-sleep-woke";
    let results: Vec<RunResult> = std::thread::scope(|s| {
        let hs: Vec<_> = (0..n).map(|_| s.spawn(|| run_case(case, bound, false, watch))).collect();
        hs.into_iter().map(|h| h.join().expect("run")).collect()
    });
    let hits = results.iter().filter(|r| r.verdicts.iter().any(|v| v.sig == sig)).count();
    (hits, results)
}

fn case_json(c: &Case) -> Value {
    serde_json::to_value(c).unwrap()
}

fn main() {
    let ctx = vcore::Ctx::from_args();
    if ctx.id != "C42" {
        eprintln!("engine rt serves C42 only");
        std::process::exit(2);
    }
    exec::install_panic_hook();
    let meta = Meta { rule: RULE, assumptions: ASSUMPTIONS, nontrivial_floor: ctx.pick(60, 1000) };
    let mut report = Report::default();

    if let Some(path) = &ctx.replay {
        let v = vcore::load_replay(path);
        if v.get("victim_us").is_some() {
            let c: backlog::BacklogCase = serde_json::from_value(v).expect("backlog case");
            let mut hits = 0;
            for i in 0..3 {
                let o = backlog::run(&c, wall_bound());
                println!("replay run {}: {c:?}: {o:?}", i + 1);
                if o.judged && o.wakes_after_drop > 0 {
                    hits += 1;
                }
            }
            report.stats.evaluations = 3;
            if hits == 3 {
                report.failures.push(Failure {
                    signature: backlog::SIG.into(),
                    what: backlog::what(&c, &backlog::run(&c, wall_bound())),
                    case: serde_json::to_value(&c).unwrap(),
                    shrunk_from: None,
                    shrunk_to: None,
                });
            } else if hits > 0 {
                report.inconclusive.push("the case failed in some but not all of 3 runs".into());
            }
            vcore::finish(&ctx, meta, report);
        }
        let case: Case = serde_json::from_value(v).unwrap_or_else(|e| {
            eprintln!("replay file does not hold a C42 case: {e}");
            std::process::exit(2)
        });
        let mut sigs: Vec<Vec<Verdict>> = vec![];
        for i in 0..3 {
            let r = run_case(&case, wall_bound(), true, true);
            println!("replay run {}: {}", i + 1, serde_json::to_string_pretty(&r.detail).unwrap());
            sigs.push(r.verdicts);
        }
        report.stats.evaluations = 3;
        if let Some(first) = sigs[0].iter().find(|v| sigs.iter().all(|s| s.iter().any(|w| w.sig == v.sig))) {
            report.failures.push(Failure {
                signature: if first.liveness { format!("{}:{}", first.sig, exec::shape(&case)) } else { first.sig.clone() },
                what: first.what.clone(),
                case: case_json(&case),
                shrunk_from: None,
                shrunk_to: None,
            });
        } else if sigs.iter().any(|s| !s.is_empty()) {
            report.inconclusive.push("the case failed in some but not all of 3 runs".into());
        }
        vcore::finish(&ctx, meta, report);
    }

    let known = Known::load(&ctx.id);
    let cases_n: usize = std::env::var("RT_CASES").ok().and_then(|s| s.parse().ok()).unwrap_or(ctx.pick(300, 5000));
    let workers: usize = std::env::var("RT_WORKERS").ok().and_then(|s| s.parse().ok()).unwrap_or(24);
    let strategy = case_strategy();
    let mut runner = vcore::pt::runner(cases_n as u32, ctx.rng_seed("configs"), 0);
    let mut cases: Vec<Case> = Vec::with_capacity(cases_n);
    for _ in 0..cases_n {
        cases.push(strategy.new_tree(&mut runner).expect("strategy").current());
    }

    // phase 1: all configurations, `workers` at a time
    let next = AtomicUsize::new(0);
    let hangs = AtomicUsize::new(0);
    let results: Mutex<Vec<Option<RunResult>>> = Mutex::new((0..cases_n).map(|_| None).collect());
    std::thread::scope(|s| {
        for _ in 0..workers.min(cases_n) {
            s.spawn(|| {
                loop {
                    let i = next.fetch_add(1, SeqCst);
                    // every hang costs the full wall bound: after 3 of them the campaign goes on to confirm them
                    if i >= cases_n || hangs.load(SeqCst) >= 3 {
                        break;
                    }
                    let r = run_case(&cases[i], wall_bound(), false, true);
                    if r.hung {
                        hangs.fetch_add(1, SeqCst);
                    }
                    results.lock().unwrap()[i] = Some(r);
                }
            });
        }
    });
    let results: Vec<Option<RunResult>> = results.into_inner().unwrap();
    let skipped = results.iter().filter(|r| r.is_none()).count();

    // phase 2: statistics, confirm-by-replay, shrinking
    let stats = &mut report.stats;
    let mut handled: Vec<String> = vec![];
    let mut confirmed: Vec<String> = vec![];
    let mut unconfirmed: Vec<Value> = vec![];
    let mut max_wall = Duration::ZERO;
    for (i, r) in results.iter().enumerate() {
        let Some(r) = r else { continue };
        let cj = case_json(&cases[i]);
        stats.case(vcore::hash_json(&cj), r.nontrivial, &r.classes);
        max_wall = max_wall.max(r.wall);
        if r.nontrivial && stats.wants_sample() {
            let mut c = cases[i].clone();
            c.entries.truncate(6);
            stats.sample(json!({"case_head": case_json(&c), "observed": r.detail}));
        }
        let Some(pv) = r.primary() else { continue };
        stats.class("failed_first_run");
        // per signature: up to 5 different failing configurations are tried until one reproduces 3/3
        if confirmed.contains(&pv.sig) || handled.iter().filter(|s| **s == pv.sig).count() >= 5 {
            continue;
        }
        let mut distinct = handled.clone();
        distinct.dedup();
        if distinct.len() >= 4 && !distinct.contains(&pv.sig) {
            continue;
        }
        handled.push(pv.sig.clone());
        handled.sort();
        eprintln!("case {i}: {} — {}; re-running 3x", pv.sig, pv.what);
        let (hits, _) = reproduces(&cases[i], &pv.sig, 3);
        if hits < 3 {
            eprintln!("  reproduced {hits}/3: not reported");
            unconfirmed.push(json!({"case_index": i, "signature": pv.sig, "what": pv.what, "reproduced": format!("{hits}/3"), "liveness": pv.liveness}));
            continue;
        }
        confirmed.push(pv.sig.clone());
        let same = results.iter().flatten().filter(|x| x.primary().map(|p| p.sig == pv.sig).unwrap_or(false)).count();
        if known.matches(&pv.sig) {
            *stats.excluded_known.entry(pv.sig.clone()).or_insert(0) += same as u64;
            continue;
        }
        // shrink (single runs while searching; the result is confirmed 3/3 below)
        let sig = pv.sig.clone();
        let from = cj.to_string().len() as u64;
        // candidates of a (confirmed) hang are run with a 3 s bound; the minimal one is re-confirmed with the full bound
        let (budget, max_evals) = if pv.liveness { (Duration::from_secs(ctx.pick(30, 240)), 60) } else { (Duration::from_secs(ctx.pick(8, 150)), 2000) };
        let cand_bound = if pv.liveness { Duration::from_secs(3).min(wall_bound()) } else { wall_bound() };
        let fails = |c: &Case| reproduces_within(c, &sig, 1, cand_bound).0 == 1;
        let (min_case, evals) = model::shrink(&cases[i], &fails, budget, max_evals);
        eprintln!("  shrunk with {evals} evaluations");
        let what = reproduces_within(&min_case, &sig, 1, cand_bound).1[0].verdicts.iter().find(|v| v.sig == sig).map(|v| v.what.clone());
        let mut best = match what {
            Some(w) => (min_case, w),
            None => (cases[i].clone(), pv.what.clone()),
        };
        // the minimal case must itself reproduce 3/3, otherwise the original (confirmed) case is reported
        if best.0 != cases[i] {
            let (hits, rs) = reproduces(&best.0, &sig, 3);
            if hits < 3 {
                best = (cases[i].clone(), pv.what.clone());
            } else if let Some(v) = rs[0].verdicts.iter().find(|v| v.sig == sig) {
                best.1 = v.what.clone();
            }
        }
        let cj2 = case_json(&best.0);
        let sig = if pv.liveness { format!("{sig}:{}", exec::shape(&best.0)) } else { sig };
        if known.matches(&sig) {
            *stats.excluded_known.entry(sig).or_insert(0) += same as u64;
            continue;
        }
        report.failures.push(Failure {
            signature: sig,
            what: best.1,
            shrunk_to: Some(cj2.to_string().len() as u64),
            case: cj2,
            shrunk_from: Some(from),
        });
    }
    backlog_campaign(&ctx, &known, &mut report, &mut unconfirmed);
    for u in &unconfirmed {
        let sig = u["signature"].as_str().unwrap_or("");
        if confirmed.iter().any(|c| c == sig) {
            continue;
        }
        if u["liveness"] == json!(true) {
            report.inconclusive.push(format!("wall bound exceeded, reproduced {}: {}", u["reproduced"], u["what"]));
        } else if !sig.starts_with("C42:dropped-sleep-woke") && sig != "C42:block-timeout-spurious-timeout" {
            // exact clauses cannot be falsified by scheduling noise: never pass silently
            report.inconclusive.push(format!("exact clause failed but reproduced only {}: {sig} — {}", u["reproduced"], u["what"]));
        }
    }
    let foreign = exec::FOREIGN_PANICS.lock().unwrap_or_else(|e| e.into_inner()).clone();
    if !foreign.is_empty() {
        let (name, file, msg) = &foreign[0];
        let sig = exec::panic_signature(file, msg);
        if known.matches(&sig) {
            *report.stats.excluded_known.entry(sig).or_insert(0) += foreign.len() as u64;
        } else if !report.failures.iter().any(|f| f.signature == sig) {
            report.failures.push(Failure {
                signature: sig,
                what: format!("thread '{name}' panicked at {file}: {msg} ({} such panics)", foreign.len()),
                case: Value::Null,
                shrunk_from: None,
                shrunk_to: None,
            });
        }
    }
    if skipped > 0 {
        report.stats.extra.insert("configurations_skipped_after_3_hangs".into(), json!(skipped));
    }
    report.stats.extra.insert("unconfirmed_failures".into(), json!(unconfirmed));
    report.stats.extra.insert("concurrent_configurations".into(), json!(workers));
    report.stats.extra.insert("max_configuration_wall_ms".into(), json!(max_wall.as_millis() as u64));
    vcore::finish(&ctx, meta, report);
}

/// Deterministic sub-campaign of clause (c): cancellation queued behind a backlog of timer messages.
fn backlog_campaign(ctx: &vcore::Ctx, known: &Known, report: &mut Report, unconfirmed: &mut Vec<Value>) {
    use backlog::{BacklogCase, BacklogObs};
    use proptest::prelude::*;
    let n: usize = std::env::var("RT_BACKLOG_CASES").ok().and_then(|s| s.parse().ok()).unwrap_or(ctx.pick(40, 400));
    let strategy = (1u32..=200, prop_oneof![1u32..=20, 1u32..=2000], 100u32..=5000)
        .prop_map(|(fillers, polls_each, victim_us)| BacklogCase { fillers, polls_each, victim_us });
    let mut runner = vcore::pt::runner(n as u32, ctx.rng_seed("backlog"), 0);
    let failed = |o: &BacklogObs| o.judged && o.wakes_after_drop > 0;
    // how much longer than the victim's duration the timer thread was busy
    let ratio = |c: &BacklogCase, o: &BacklogObs| {
        o.backlog_drained_after.map(|d| d.as_secs_f64() * 1e6 / c.victim_us as f64).unwrap_or(0.0)
    };
    // fails k times in a row, each time with the backlog at least twice as long as the sleep
    let fails_robustly = |c: &BacklogCase, k: usize| -> Option<BacklogObs> {
        let mut last = None;
        for _ in 0..k {
            let o = backlog::run(c, wall_bound());
            if !failed(&o) || ratio(c, &o) < 2.0 {
                return None;
            }
            last = Some(o);
        }
        last
    };
    let mut failing: Vec<(BacklogCase, BacklogObs)> = vec![];
    for _ in 0..n {
        let c = vcore::pt::draw(&mut runner, &strategy);
        let o = backlog::run(&c, wall_bound());
        let cj = serde_json::to_value(&c).unwrap();
        let mut classes = vec!["backlog_scenario".to_string()];
        if o.judged {
            classes.push("backlog_drop_before_deadline".into());
        }
        if ratio(&c, &o) > 1.0 {
            classes.push("backlog_longer_than_sleep".into());
        }
        if o.backlog_drained_after.is_none() {
            report.inconclusive.push(format!("backlog scenario {c:?}: the timer thread did not reach the sentinel within {:?}", wall_bound()));
        }
        report.stats.case(vcore::hash_json(&cj), o.judged && c.fillers as u64 * c.polls_each as u64 >= 2, &classes);
        if failed(&o) {
            failing.push((c, o));
        }
    }
    if failing.is_empty() {
        return;
    }
    let n_failing = failing.len() as u64;
    failing.sort_by(|a, b| ratio(&b.0, &b.1).partial_cmp(&ratio(&a.0, &a.1)).unwrap());
    // confirm-by-replay: the clearest cases first
    let mut confirmed = None;
    for (c, o) in failing.iter().take(5) {
        if (0..3).all(|_| failed(&backlog::run(c, wall_bound()))) {
            confirmed = Some((c.clone(), backlog::what(c, o)));
            break;
        }
        unconfirmed.push(json!({"signature": backlog::SIG, "what": backlog::what(c, o), "reproduced": "<3/3", "liveness": false}));
    }
    let Some((c, what)) = confirmed else { return };
    if known.matches(backlog::SIG) {
        *report.stats.excluded_known.entry(backlog::SIG.into()).or_insert(0) += n_failing;
        return;
    }
    // shrink: fewer messages ahead of the cancellation / shorter sleep, as long as it still fails robustly
    let from = serde_json::to_value(&c).unwrap().to_string().len() as u64;
    let mut best = (c, what);
    loop {
        let b = &best.0;
        let mut cands = vec![];
        if b.fillers > 1 {
            cands.push(BacklogCase { fillers: b.fillers / 2, ..b.clone() });
        }
        if b.polls_each > 1 {
            cands.push(BacklogCase { polls_each: b.polls_each / 2, ..b.clone() });
        }
        if b.polls_each > 1 && b.victim_us >= 200 {
            cands.push(BacklogCase { polls_each: b.polls_each / 2, victim_us: b.victim_us / 2, ..b.clone() });
        }
        if b.fillers > 1 && b.victim_us >= 200 {
            cands.push(BacklogCase { fillers: b.fillers / 2, victim_us: b.victim_us / 2, ..b.clone() });
        }
        if b.victim_us % 100 != 0 {
            cands.push(BacklogCase { victim_us: b.victim_us / 100 * 100, ..b.clone() });
        }
        match cands.into_iter().find_map(|x| fails_robustly(&x, 5).map(|o| (x.clone(), backlog::what(&x, &o)))) {
            Some(x) => best = x,
            None => break,
        }
    }
    let cj2 = serde_json::to_value(&best.0).unwrap();
    report.failures.push(Failure {
        signature: backlog::SIG.into(),
        what: best.1,
        shrunk_to: Some(cj2.to_string().len() as u64),
        case: cj2,
        shrunk_from: Some(from),
    });
}
