//! Generated configuration of one E-RT case (property C42) and its proptest strategy.
//!
//! A case is a set of sleeps distributed over 1..=8 threads that share one `StdRuntime`
//! (one timer thread, one executor thread), plus a few `block_on` / `block_timeout` probes.

use proptest::prelude::*;
use serde::{Deserialize, Serialize};
use std::time::Duration;

/// Requested duration of a sleep.
#[derive(Clone, Debug, Serialize, Deserialize, PartialEq, Eq)]
pub enum Dur {
    /// 0..=80 ms in microseconds
    Us(u32),
    /// 300 ms: long enough that a drop within a few ms is far away from the deadline
    Long,
    /// a duration that cannot elapse during the test (index into `HUGE`)
    Huge(u8),
}

pub const HUGE: &[(&str, Duration)] = &[
    ("Duration::MAX", Duration::MAX),
    ("u64::MAX s", Duration::from_secs(u64::MAX)),
    ("i64::MAX s", Duration::from_secs(i64::MAX as u64)),
    ("i64::MAX-2^33 s", Duration::from_secs(i64::MAX as u64 - (1 << 33))),
    ("2^40 s", Duration::from_secs(1 << 40)),
    ("100 years", Duration::from_secs(100 * 365 * 86400)),
    ("1 day + 1 s", Duration::from_secs(86401)),
    ("1 hour", Duration::from_secs(3600)),
];

impl Dur {
    pub fn get(&self) -> Duration {
        match self {
            Dur::Us(u) => Duration::from_micros(*u as u64),
            Dur::Long => Duration::from_millis(300),
            Dur::Huge(k) => HUGE[*k as usize % HUGE.len()].1,
        }
    }
    pub fn is_huge(&self) -> bool {
        matches!(self, Dur::Huge(_))
    }
}

/// What else happens to a sleep besides being awaited.
#[derive(Clone, Debug, Serialize, Deserialize, PartialEq, Eq)]
pub enum Aux {
    None,
    /// an auxiliary sleep of `after_us` runs next to it (select pattern); when that one completes
    /// first, the main sleep is dropped
    Drop { after_us: u32 },
    /// `times` auxiliary sleeps of `after_us` each; whenever one completes, the main sleep is polled
    /// again although nobody woke it
    Repoll { after_us: u32, times: u8 },
}

#[derive(Clone, Debug, Serialize, Deserialize, PartialEq, Eq)]
pub struct Entry {
    pub dur: Dur,
    pub aux: Aux,
    /// every poll of the main sleep hands it a *different* waker; only the latest one makes the
    /// harness poll it again
    pub fresh_waker: bool,
}

#[derive(Clone, Copy, Debug, Serialize, Deserialize, PartialEq, Eq)]
pub enum Driver {
    BlockOn,
    BlockTimeout,
    Executor,
}

#[derive(Clone, Debug, Serialize, Deserialize, PartialEq, Eq)]
pub enum Fut {
    Ready,
    /// never ready (only ever used with a short timeout)
    Never,
    /// made ready (and woken) by a helper OS thread after d
    AfterThread { d_us: u32 },
    /// ready after a runtime sleep of d
    AfterSleep { d_us: u32 },
}

#[derive(Clone, Debug, Serialize, Deserialize, PartialEq, Eq)]
pub enum Tmo {
    /// `block_on`
    None,
    /// `block_timeout` with 0..=60 ms
    SmallUs(u32),
    /// `block_timeout` with max(50 d, d + 1 s) + 100 ms
    Large,
    /// `block_timeout` with HUGE[k]
    Huge(u8),
}

#[derive(Clone, Debug, Serialize, Deserialize, PartialEq, Eq)]
pub struct Block {
    pub fut: Fut,
    pub tmo: Tmo,
    pub value: u64,
}

#[derive(Clone, Debug, Serialize, Deserialize, PartialEq, Eq)]
pub struct Case {
    pub nthreads: u8,
    pub drivers: Vec<Driver>,
    pub values: Vec<u64>,
    /// (thread choice, entry)
    pub entries: Vec<(u16, Entry)>,
    /// (thread choice, before the sleeps?, probe)
    pub blocks: Vec<(u16, bool, Block)>,
}

impl Case {
    pub fn thread_of(&self, choice: u16) -> usize {
        vcore::pt::idx(choice, self.nthreads.clamp(1, 8) as usize)
    }
    /// Makes a deserialised / shrunk case well-formed (never changes a generated one).
    pub fn normalised(mut self) -> Case {
        self.nthreads = self.nthreads.clamp(1, 8);
        while self.drivers.len() < 8 {
            self.drivers.push(Driver::BlockOn);
        }
        while self.values.len() < 8 {
            self.values.push(0);
        }
        for (_, _, b) in self.blocks.iter_mut() {
            if matches!(b.fut, Fut::Never) && !matches!(b.tmo, Tmo::SmallUs(_)) {
                b.tmo = Tmo::SmallUs(1000);
            }
        }
        self
    }
}

fn dur_strategy() -> impl Strategy<Value = Dur> {
    prop_oneof![
        10 => (0u32..=80_000).prop_map(Dur::Us),
        2 => (0u32..=3_000).prop_map(Dur::Us),
        1 => Just(Dur::Us(0)),
    ]
}

/// `Dur::Us(u32::MAX - i)` is a placeholder for "the i-th shared duration" until `case_strategy` resolves it.
fn entry_strategy() -> impl Strategy<Value = Entry> {
    let kept = (
        prop_oneof![
            8 => dur_strategy(),
            // many sleeps with identical requested durations
            3 => (0u32..3).prop_map(|i| Dur::Us(u32::MAX - i)),
        ],
        prop_oneof![
            6 => Just(Aux::None),
            2 => (0u32..=5_000).prop_map(|after_us| Aux::Drop { after_us }),
            1 => ((0u32..=20_000), 1u8..=3).prop_map(|(after_us, times)| Aux::Repoll { after_us, times }),
        ],
        prop::bool::weighted(0.25),
    )
        .prop_map(|(dur, aux, fresh_waker)| Entry { dur, aux, fresh_waker });
    // the drop whose effect is judged: far from the deadline
    let long_drop = ((0u32..=5_000), prop::bool::weighted(0.25))
        .prop_map(|(after_us, fresh_waker)| Entry { dur: Dur::Long, aux: Aux::Drop { after_us }, fresh_waker });
    // sleeps that cannot elapse: dropped early or left pending until the thread is done
    let huge = (
        0u8..HUGE.len() as u8,
        prop_oneof![
            Just(Aux::None),
            (0u32..=5_000).prop_map(|after_us| Aux::Drop { after_us }),
            ((0u32..=20_000), 1u8..=2).prop_map(|(after_us, times)| Aux::Repoll { after_us, times }),
        ],
        prop::bool::weighted(0.25),
    )
        .prop_map(|(k, aux, fresh_waker)| Entry { dur: Dur::Huge(k), aux, fresh_waker });
    prop_oneof![
        40 => kept,
        3 => long_drop,
        1 => huge,
    ]
}

fn block_strategy() -> impl Strategy<Value = Block> {
    let d = prop_oneof![0u32..=20_000, 0u32..=2_000];
    let small = prop_oneof![0u32..=60_000, 0u32..=3_000].prop_map(Tmo::SmallUs);
    let value = || any::<u16>().prop_map(|x| vcore::mix(x as u64, "block", 0));
    let fut_done = prop_oneof![
        Just(Fut::Ready),
        d.clone().prop_map(|d_us| Fut::AfterThread { d_us }),
        d.prop_map(|d_us| Fut::AfterSleep { d_us }),
    ];
    let tmo_any = prop_oneof![
        3 => Just(Tmo::None),
        4 => small.clone(),
        3 => Just(Tmo::Large),
        1 => (0u8..HUGE.len() as u8).prop_map(Tmo::Huge),
    ];
    prop_oneof![
        5 => (fut_done, tmo_any, value()).prop_map(|(fut, tmo, value)| Block { fut, tmo, value }),
        1 => (small, value()).prop_map(|(tmo, value)| Block { fut: Fut::Never, tmo, value }),
    ]
}

pub fn case_strategy() -> impl Strategy<Value = Case> {
    let driver = prop_oneof![Just(Driver::BlockOn), Just(Driver::BlockTimeout), Just(Driver::Executor)];
    // size classes so that both tiny and 200-sleep configurations are common; no flat_map (shrinks badly):
    // 200 entries are always drawn and the list is cut to the drawn size
    let size = prop_oneof![
        3 => 1usize..=6,
        4 => 2usize..=40,
        2 => 40usize..=200,
    ];
    (
        1u8..=8,
        prop::collection::vec(driver, 8),
        any::<u16>(),
        size,
        prop::collection::vec(0u32..=80_000, 3),
        prop::collection::vec((any::<u16>(), entry_strategy()), 1..=200),
        prop::collection::vec((any::<u16>(), any::<bool>(), block_strategy()), 0..=3),
    )
        .prop_map(|(nthreads, drivers, value_seed, size, shared, mut entries, blocks)| {
            let values = (0..8).map(|i| vcore::mix(value_seed as u64, "value", i)).collect();
            entries.truncate(size.max(1));
            for (_, e) in entries.iter_mut() {
                if let Dur::Us(u) = e.dur {
                    if u > 80_000 {
                        e.dur = Dur::Us(shared[((u32::MAX - u) as usize) % shared.len()]);
                    }
                }
            }
            Case { nthreads, drivers, values, entries, blocks }
        })
}

/// Delta-debugging style minimisation of a failing case: `fails` must return true for a candidate
/// that still shows the failure. Stops when `budget` is used up.
pub fn shrink(case: &Case, fails: &dyn Fn(&Case) -> bool, budget: Duration, max_evals: usize) -> (Case, usize) {
    let t0 = std::time::Instant::now();
    let mut best = case.clone();
    let mut evals = 0usize;
    let mut try_cand = |best: &mut Case, cand: Case| -> bool {
        if cand == *best || (cand.entries.is_empty() && cand.blocks.is_empty()) {
            return false;
        }
        if t0.elapsed() > budget || evals >= max_evals {
            return false;
        }
        evals += 1;
        if fails(&cand) {
            *best = cand;
            true
        } else {
            false
        }
    };
    // probes
    if !best.blocks.is_empty() {
        let mut c = best.clone();
        c.blocks.clear();
        try_cand(&mut best, c);
    }
    if !best.entries.is_empty() && !best.blocks.is_empty() {
        let mut c = best.clone();
        c.entries.clear();
        try_cand(&mut best, c);
    }
    let mut i = 0;
    while i < best.blocks.len() {
        let mut c = best.clone();
        c.blocks.remove(i);
        if !try_cand(&mut best, c) {
            i += 1;
        }
    }
    // sleeps: remove chunks
    let mut chunk = best.entries.len().div_ceil(2).max(1);
    loop {
        let mut i = 0;
        while i < best.entries.len() {
            let mut c = best.clone();
            let end = (i + chunk).min(c.entries.len());
            c.entries.drain(i..end);
            if !try_cand(&mut best, c) {
                i += chunk;
            }
        }
        if chunk == 1 {
            break;
        }
        chunk = chunk.div_ceil(2);
    }
    // threads
    for n in [1u8, 2, 4] {
        if n < best.nthreads {
            let mut c = best.clone();
            c.nthreads = n;
            if try_cand(&mut best, c) {
                break;
            }
        }
    }
    for t in 0..8 {
        if best.drivers[t] != Driver::BlockOn {
            let mut c = best.clone();
            c.drivers[t] = Driver::BlockOn;
            try_cand(&mut best, c);
        }
    }
    // simplify each sleep
    for i in 0..best.entries.len() {
        if best.entries[i].1.aux != Aux::None {
            let mut c = best.clone();
            c.entries[i].1.aux = Aux::None;
            try_cand(&mut best, c);
        }
        if best.entries[i].1.fresh_waker {
            let mut c = best.clone();
            c.entries[i].1.fresh_waker = false;
            try_cand(&mut best, c);
        }
        if let Aux::Repoll { after_us, times } = best.entries[i].1.aux {
            if times > 1 {
                let mut c = best.clone();
                c.entries[i].1.aux = Aux::Repoll { after_us, times: 1 };
                try_cand(&mut best, c);
            }
        }
        let simpler: Vec<Dur> = match best.entries[i].1.dur {
            Dur::Huge(k) if k > 0 => vec![Dur::Us(0), Dur::Us(20_000), Dur::Long, Dur::Huge(0)],
            Dur::Huge(_) => vec![Dur::Us(0), Dur::Us(20_000), Dur::Long],
            Dur::Long => vec![Dur::Us(0), Dur::Us(20_000)],
            Dur::Us(u) if u > 0 => vec![Dur::Us(0), Dur::Us(u / 8), Dur::Us(u / 2), Dur::Us(u / 1000 * 1000)],
            Dur::Us(_) => vec![],
        };
        for d in simpler {
            let mut c = best.clone();
            c.entries[i].1.dur = d;
            if try_cand(&mut best, c) {
                break;
            }
        }
        if best.entries[i].0 != 0 {
            let mut c = best.clone();
            c.entries[i].0 = 0;
            try_cand(&mut best, c);
        }
    }
    for i in 0..best.blocks.len() {
        let b = best.blocks[i].2.clone();
        let mut cands = vec![];
        if b.fut != Fut::Ready && b.fut != Fut::Never {
            cands.push(Block { fut: Fut::Ready, ..b.clone() });
        }
        if let Fut::AfterSleep { d_us } | Fut::AfterThread { d_us } = b.fut {
            if d_us > 1000 {
                cands.push(Block { fut: Fut::AfterThread { d_us: 1000 }, ..b.clone() });
            }
        }
        if b.value != 0 {
            cands.push(Block { value: 0, ..b.clone() });
        }
        for nb in cands {
            let mut c = best.clone();
            c.blocks[i].2 = nb;
            try_cand(&mut best, c);
        }
    }
    (best, evals)
}
