//! Deterministic scenario for clause (c): the cancellation of a dropped sleep is queued behind a
//! backlog of timer messages (produced only through the public API: creating and polling sleeps),
//! so the timer thread is *busy* (not descheduled) when the dropped sleep's deadline passes.
//!
//! Judged only when the drop demonstrably returned before the earliest possible deadline
//! (instant before the first poll + duration). The observation has no timing bound: a sentinel
//! sleep registered after the drop tells when the timer thread has consumed the cancellation.

use dust_dds::std_runtime::timer::{Sleep, TimerDriver};
use serde::{Deserialize, Serialize};
use std::{
    future::Future,
    pin::Pin,
    sync::{
        Arc,
        atomic::{AtomicU64, Ordering::SeqCst},
    },
    task::{Context, Wake, Waker},
    time::{Duration, Instant},
};

#[derive(Clone, Debug, Serialize, Deserialize, PartialEq, Eq)]
pub struct BacklogCase {
    /// number of distinct long sleeps that produce the backlog
    pub fillers: u32,
    /// how often each of them is polled (every poll registers its waker again)
    pub polls_each: u32,
    /// requested duration of the sleep that is dropped
    pub victim_us: u32,
}

struct Count(AtomicU64);
impl Wake for Count {
    fn wake(self: Arc<Self>) {
        self.0.fetch_add(1, SeqCst);
    }
    fn wake_by_ref(self: &Arc<Self>) {
        self.0.fetch_add(1, SeqCst);
    }
}

pub const SIG: &str = "C42:dropped-sleep-woke:cancel-queued-behind-backlog";

pub fn what(c: &BacklogCase, o: &BacklogObs) -> String {
    format!(
        "{} sleep(s) of 1 h polled {} time(s) each, then a sleep of {} us polled once and dropped {:?} after the instant before that poll (i.e. before its deadline): its waker was invoked {} time(s) after the drop had returned (timer thread reached the messages behind the cancellation {:?} after the drop)",
        c.fillers, c.polls_each, c.victim_us, o.drop_after, o.wakes_after_drop, o.backlog_drained_after
    )
}

#[derive(Debug)]
pub struct BacklogObs {
    /// drop returned this long after the instant before the first poll
    pub drop_after: Duration,
    pub judged: bool,
    pub wakes_after_drop: u64,
    /// how long the timer thread needed to reach the sentinel registered after the drop
    pub backlog_drained_after: Option<Duration>,
}

fn poll_once(s: &mut Sleep, w: &Waker) -> bool {
    Pin::new(s).poll(&mut Context::from_waker(w)).is_ready()
}

pub fn run(c: &BacklogCase, wall_bound: Duration) -> BacklogObs {
    let start = Instant::now();
    let driver = TimerDriver::new();
    let h = driver.handle();
    let filler_count = Arc::new(Count(AtomicU64::new(0)));
    let filler_waker = Waker::from(filler_count.clone());
    let victim_count = Arc::new(Count(AtomicU64::new(0)));
    let victim_waker = Waker::from(victim_count.clone());
    let sentinel_count = Arc::new(Count(AtomicU64::new(0)));
    let sentinel_waker = Waker::from(sentinel_count.clone());

    let mut fillers: Vec<Sleep> = (0..c.fillers.max(1)).map(|_| h.sleep(Duration::from_secs(3600))).collect();
    for _ in 0..c.polls_each.max(1) {
        for f in fillers.iter_mut() {
            poll_once(f, &filler_waker);
        }
    }
    let d = Duration::from_micros(c.victim_us as u64);
    let mut victim = h.sleep(d);
    let t0 = Instant::now();
    let ready = poll_once(&mut victim, &victim_waker);
    drop(victim);
    let t_drop = Instant::now();
    let c0 = victim_count.0.load(SeqCst);
    let drop_after = t_drop.duration_since(t0);
    let judged = !ready && drop_after < d;
    // sentinel: registered after the cancellation, fires as soon as the timer thread gets to it
    let mut sentinel = h.sleep(Duration::ZERO);
    poll_once(&mut sentinel, &sentinel_waker);
    let mut drained = None;
    while start.elapsed() < wall_bound {
        if sentinel_count.0.load(SeqCst) > 0 {
            drained = Some(t_drop.elapsed());
            break;
        }
        std::thread::sleep(Duration::from_micros(200));
    }
    let wakes_after_drop = victim_count.0.load(SeqCst) - c0;
    drop(sentinel);
    drop(fillers);
    BacklogObs { drop_after, judged, wakes_after_drop, backlog_drained_after: drained }
}
