//! C13 — discovery data round-trips through its parameter-list encoding; foreign parameters are ignored.
//!
//! Oracle (from the statement): `decode(encode(x))` is Ok and equals `x` field by field through the public getters
//! of the builtin-topic data (locator lists in order); with foreign parameters spliced into the encoded list the
//! decoded value still equals `x`.

use crate::plist::{PList, Param};
use crate::shared::{guard, palette};
use dust_dds::{
    infrastructure::{
        qos::{DataReaderQos, DataWriterQos, PublisherQos, SubscriberQos, TopicQos},
        qos_policy::*,
        time::{Duration, DurationKind},
    },
    transport::types::Locator,
    verif_hooks::{self as vh, VerifParticipantData, VerifPublicationData, VerifSubscriptionData, VerifTopicData},
    xtypes::dynamic_type::DynamicType,
};
use proptest::prelude::*;
use serde::{Deserialize, Serialize};
use serde_json::{Value, json};
use vcore::pt::CaseOutcome;

// ------------------------------------------------------------------------------------------------
// case model (plain data, JSON-able; the dust-dds values are built from it)

#[derive(Clone, Copy, Debug, PartialEq, Serialize, Deserialize)]
pub enum Dur {
    Inf,
    Fin(i32, u32),
}

#[derive(Clone, Debug, PartialEq, Serialize, Deserialize)]
pub enum Octets {
    Raw(Vec<u8>),
    /// `len` bytes, byte i = (i*31 + seed) mod 256 (keeps replay files small for 70 000-byte values)
    Pattern { len: u32, seed: u8 },
}

impl Octets {
    pub fn bytes(&self) -> Vec<u8> {
        match self {
            Octets::Raw(v) => v.clone(),
            Octets::Pattern { len, seed } => {
                (0..*len).map(|i| (i.wrapping_mul(31).wrapping_add(*seed as u32) & 0xff) as u8).collect()
            }
        }
    }
    pub fn len(&self) -> usize {
        match self {
            Octets::Raw(v) => v.len(),
            Octets::Pattern { len, .. } => *len as usize,
        }
    }
}

#[derive(Clone, Copy, Debug, PartialEq, Serialize, Deserialize)]
pub struct Loc {
    pub kind: i32,
    pub port: u32,
    pub addr: [u8; 16],
}

/// `None` = the policy keeps its default value
#[derive(Clone, Debug, PartialEq, Serialize, Deserialize, Default)]
pub struct Common {
    pub durability: Option<u8>,
    pub deadline: Option<Dur>,
    pub latency_budget: Option<Dur>,
    pub liveliness: Option<(u8, Dur)>,
    pub reliability: Option<(u8, Dur)>,
    pub destination_order: Option<u8>,
    pub ownership: Option<u8>,
    pub representation: Option<Vec<u16>>,
}

#[derive(Clone, Debug, PartialEq, Serialize, Deserialize, Default)]
pub struct Group {
    pub presentation: Option<(u8, bool, bool)>,
    pub partition: Option<Vec<String>>,
    pub group_data: Option<Octets>,
}

#[derive(Clone, Debug, PartialEq, Serialize, Deserialize)]
pub enum Hist {
    KeepLast(u32),
    KeepAll,
}

#[derive(Clone, Debug, PartialEq, Serialize, Deserialize)]
pub struct Endpoint {
    pub key: [u8; 16],
    pub participant_key: [u8; 16],
    pub topic_name: String,
    pub type_name: String,
    /// index into `type_info_types()`
    pub type_info: Option<u8>,
    pub common: Common,
    pub user_data: Option<Octets>,
    pub group: Group,
    pub topic_data: Option<Octets>,
    pub group_entity_id: [u8; 4],
    pub unicast: Vec<Loc>,
    pub multicast: Vec<Loc>,
}

#[derive(Clone, Debug, PartialEq, Serialize, Deserialize)]
pub enum Body {
    Participant {
        key: [u8; 16],
        user_data: Option<Octets>,
        domain_id: Option<i32>,
        domain_tag: String,
        expects_inline_qos: bool,
        metatraffic_unicast: Vec<Loc>,
        metatraffic_multicast: Vec<Loc>,
        default_unicast: Vec<Loc>,
        default_multicast: Vec<Loc>,
        builtin_endpoints: u32,
        manual_liveliness_count: i32,
        builtin_endpoint_qos: u32,
        lease: (i32, u32),
    },
    Publication {
        ep: Endpoint,
        lifespan: Option<Dur>,
        ownership_strength: Option<i32>,
    },
    Subscription {
        ep: Endpoint,
        time_based_filter: Option<Dur>,
        /// (kind, ignore_sequence_bounds, ignore_string_bounds, ignore_member_names, prevent_type_widening, force_type_validation)
        type_consistency: Option<(u8, bool, bool, bool, bool, bool)>,
        expects_inline_qos: bool,
    },
    Topic {
        key: [u8; 16],
        name: String,
        type_name: String,
        type_info: Option<u8>,
        common: Common,
        transport_priority: Option<i32>,
        lifespan: Option<Dur>,
        history: Option<Hist>,
        /// (max_samples, max_instances, max_samples_per_instance); None inside = unlimited
        resource_limits: Option<[Option<i32>; 3]>,
        topic_data: Option<Octets>,
    },
}

#[derive(Clone, Debug, PartialEq, Serialize, Deserialize)]
pub enum ForeignOp {
    /// vendor-specific parameter: pid has bit 15 set
    Vendor { pid: u16, words: u8, fill: u8, at: u16 },
    /// pid in the standard range that no OMG specification assigns, must-understand bit clear
    UnknownStandard { pid: u16, words: u8, fill: u8, at: u16 },
    /// standard parameters other vendors send that are not part of the builtin-topic data
    /// (0 = PID_ENTITY_NAME, 1 = PID_PROPERTY_LIST, 2 = PID_TYPE_MAX_SIZE_SERIALIZED, 3 = PID_PAD)
    StandardUnused { which: u8, at: u16 },
    /// permutation of the parameters (parameters with equal pid keep their relative order)
    Reorder { seed: u64 },
}

impl ForeignOp {
    fn kind(&self) -> &'static str {
        match self {
            ForeignOp::Vendor { .. } => "vendor",
            ForeignOp::UnknownStandard { .. } => "unknown-standard",
            ForeignOp::StandardUnused { .. } => "standard-unused",
            ForeignOp::Reorder { .. } => "reordered",
        }
    }
}

#[derive(Clone, Debug, PartialEq, Serialize, Deserialize)]
pub struct Case13 {
    pub body: Body,
    pub foreign: Vec<ForeignOp>,
}

impl Body {
    pub fn kind(&self) -> &'static str {
        match self {
            Body::Participant { .. } => "participant",
            Body::Publication { .. } => "publication",
            Body::Subscription { .. } => "subscription",
            Body::Topic { .. } => "topic",
        }
    }
}

// ------------------------------------------------------------------------------------------------
// types whose type information can be announced

pub fn type_info_types() -> Vec<DynamicType<'static>> {
    ["FinalPrims", "AppStrings", "MutOuter", "Keyed", "FinalSeqStruct", "FinalWithUnions"]
        .iter()
        .filter_map(|n| palette::by_name(n).map(|(_, e)| e.ty))
        .collect()
}

// ------------------------------------------------------------------------------------------------
// strategies

/// largest octet sequence whose parameter (4-byte length + data padded to 4) still fits the 16-bit parameter length
pub const MAX_REPRESENTABLE_OCTETS: usize = 65_528;

fn dur() -> impl Strategy<Value = Dur> {
    prop_oneof![
        2 => Just(Dur::Inf),
        2 => Just(Dur::Fin(0, 0)),
        2 => Just(Dur::Fin(0, 1)),
        2 => Just(Dur::Fin(i32::MAX, 0)),
        1 => Just(Dur::Fin(i32::MAX, 999_999_999)),
        1 => Just(Dur::Fin(0, 999_999_999)),
        1 => Just(Dur::Fin(1, 0)),
        1 => Just(Dur::Fin(-1, 0)),
        1 => Just(Dur::Fin(i32::MIN, 0)),
        4 => (any::<i32>(), 0u32..1_000_000_000).prop_map(|(s, n)| Dur::Fin(s, n)),
    ]
}

fn octets(allow_oversize: bool) -> BoxedStrategy<Octets> {
    let max_len = if allow_oversize { 70_000u32 } else { MAX_REPRESENTABLE_OCTETS as u32 };
    let boundary: Vec<u32> = [
        1u32, 2, 3, 4, 5, 255, 256, 1000, 1001, 65_527, 65_528, 65_529, 65_530, 65_531, 65_532, 65_533, 65_535,
        65_536, 65_537, 70_000,
    ]
    .into_iter()
    .filter(|l| *l <= max_len)
    .collect();
    prop_oneof![
        6 => prop::collection::vec(any::<u8>(), 0..=64).prop_map(Octets::Raw),
        2 => (65u32..=1000, any::<u8>()).prop_map(|(len, seed)| Octets::Pattern { len, seed }),
        3 => (1001u32..=max_len, any::<u8>()).prop_map(|(len, seed)| Octets::Pattern { len, seed }),
        2 => (prop::sample::select(boundary), any::<u8>()).prop_map(|(len, seed)| Octets::Pattern { len, seed }),
    ]
    .boxed()
}

fn opt<S: Strategy + 'static>(s: S) -> BoxedStrategy<Option<S::Value>>
where
    S::Value: Clone + std::fmt::Debug + 'static,
{
    prop_oneof![1 => Just(None), 1 => s.prop_map(Some)].boxed()
}

const NAME_CHARS: &[char] = &[
    'a', 'b', 'c', 'x', 'y', 'z', 'A', 'Z', '0', '9', '_', ':', '/', '*', '?', ' ', '.', '-', '[', ']', '\u{e9}', '\u{4e2d}',
];

fn name(max: usize) -> impl Strategy<Value = String> {
    prop::collection::vec(prop::sample::select(NAME_CHARS), 0..=max).prop_map(|v| v.into_iter().collect())
}

fn partition_name() -> impl Strategy<Value = String> {
    prop_oneof![
        2 => Just(String::new()),
        5 => name(12),
        1 => name(300),
        1 => Just("*".to_string()),
    ]
}

fn loc() -> impl Strategy<Value = Loc> {
    (
        prop_oneof![Just(1i32), Just(2), Just(0), Just(-1), any::<i32>()],
        prop_oneof![Just(0u32), Just(7400), Just(7410), Just(65535), any::<u32>()],
        prop_oneof![
            Just([0u8; 16]),
            any::<[u8; 4]>().prop_map(|a| {
                let mut x = [0u8; 16];
                x[12..].copy_from_slice(&a);
                x
            }),
            any::<[u8; 16]>()
        ],
    )
        .prop_map(|(kind, port, addr)| Loc { kind, port, addr })
}

fn locs() -> impl Strategy<Value = Vec<Loc>> {
    prop::collection::vec(loc(), 0..=4)
}

fn guid() -> impl Strategy<Value = [u8; 16]> {
    prop_oneof![
        1 => Just([0u8; 16]),
        1 => Just([0xffu8; 16]),
        6 => any::<[u8; 16]>(),
    ]
}

fn common() -> impl Strategy<Value = Common> {
    (
        opt(0u8..4),
        opt(dur()),
        opt(dur()),
        opt((0u8..3, dur())),
        opt((0u8..2, dur())),
        opt(0u8..2),
        opt(0u8..2),
        opt(prop::collection::vec(prop_oneof![Just(0u16), Just(1), Just(2), Just(0x7fff), Just(0xffff), any::<u16>()], 0..=4)),
    )
        .prop_map(|(durability, deadline, latency_budget, liveliness, reliability, destination_order, ownership, representation)| Common {
            durability,
            deadline,
            latency_budget,
            liveliness,
            reliability,
            destination_order,
            ownership,
            representation,
        })
}

fn group(allow_oversize: bool) -> impl Strategy<Value = Group> {
    (
        opt((0u8..2, any::<bool>(), any::<bool>())),
        opt(prop::collection::vec(partition_name(), 0..=4)),
        opt(octets(allow_oversize)),
    )
        .prop_map(|(presentation, partition, group_data)| Group { presentation, partition, group_data })
}

fn type_info() -> impl Strategy<Value = Option<u8>> {
    let n = type_info_types().len() as u8;
    prop_oneof![2 => Just(None), 1 => (0..n).prop_map(Some)]
}

fn endpoint(allow_oversize: bool) -> impl Strategy<Value = Endpoint> {
    (
        (guid(), guid(), name(40), name(40), type_info()),
        common(),
        opt(octets(allow_oversize)),
        group(allow_oversize),
        opt(octets(allow_oversize)),
        prop_oneof![Just([0u8; 4]), any::<[u8; 4]>()],
        locs(),
        locs(),
    )
        .prop_map(
            |((key, participant_key, topic_name, type_name, type_info), common, user_data, group, topic_data, group_entity_id, unicast, multicast)| {
                Endpoint {
                    key,
                    participant_key,
                    topic_name,
                    type_name,
                    type_info,
                    common,
                    user_data,
                    group,
                    topic_data,
                    group_entity_id,
                    unicast,
                    multicast,
                }
            },
        )
}

fn boundary_i32() -> impl Strategy<Value = i32> {
    prop_oneof![Just(0), Just(1), Just(-1), Just(i32::MAX), Just(i32::MIN), any::<i32>()]
}

fn body(allow_oversize: bool) -> BoxedStrategy<Body> {
    let participant = (
        (guid(), opt(octets(allow_oversize)), opt(prop_oneof![Just(0i32), 0i32..233, any::<i32>()]), prop_oneof![2 => Just(String::new()), 1 => name(20)], any::<bool>()),
        (locs(), locs(), locs(), locs()),
        (prop_oneof![Just(0u32), Just(0x3000_fc3f), Just(u32::MAX), any::<u32>()], prop_oneof![2 => Just(0i32), 1 => boundary_i32()], prop_oneof![2 => Just(0u32), 1 => Just(1 << 29), 1 => any::<u32>()]),
        prop_oneof![Just((100i32, 0u32)), Just((0, 0)), Just((0, 1)), Just((i32::MAX, 0)), Just((i32::MAX, 999_999_999)), (any::<i32>(), 0u32..1_000_000_000)],
    )
        .prop_map(
            |((key, user_data, domain_id, domain_tag, expects_inline_qos), (mu, mm, du, dm), (builtin_endpoints, manual_liveliness_count, builtin_endpoint_qos), lease)| {
                Body::Participant {
                    key,
                    user_data,
                    domain_id,
                    domain_tag,
                    expects_inline_qos,
                    metatraffic_unicast: mu,
                    metatraffic_multicast: mm,
                    default_unicast: du,
                    default_multicast: dm,
                    builtin_endpoints,
                    manual_liveliness_count,
                    builtin_endpoint_qos,
                    lease,
                }
            },
        );
    let publication = (endpoint(allow_oversize), opt(dur()), opt(boundary_i32()))
        .prop_map(|(ep, lifespan, ownership_strength)| Body::Publication { ep, lifespan, ownership_strength });
    let subscription = (
        endpoint(allow_oversize),
        opt(dur()),
        opt((0u8..2, any::<bool>(), any::<bool>(), any::<bool>(), any::<bool>(), any::<bool>())),
        any::<bool>(),
    )
        .prop_map(|(ep, time_based_filter, type_consistency, expects_inline_qos)| Body::Subscription {
            ep,
            time_based_filter,
            type_consistency,
            expects_inline_qos,
        });
    let limit = || prop_oneof![2 => Just(None), 1 => Just(Some(0)), 1 => Just(Some(1)), 1 => Just(Some(i32::MAX - 1)), 1 => Just(Some(-1)), 2 => any::<i32>().prop_map(Some)];
    let topic = (
        (guid(), name(40), name(40), type_info()),
        common(),
        (opt(boundary_i32()), opt(dur())),
        opt(prop_oneof![
            1 => Just(Hist::KeepAll),
            1 => Just(Hist::KeepLast(1)),
            1 => Just(Hist::KeepLast(0)),
            1 => Just(Hist::KeepLast(i32::MAX as u32)),
            1 => Just(Hist::KeepLast(u32::MAX)),
            2 => any::<u32>().prop_map(Hist::KeepLast),
        ]),
        opt((limit(), limit(), limit()).prop_map(|(a, b, c)| [a, b, c])),
        opt(octets(allow_oversize)),
    )
        .prop_map(|((key, name, type_name, type_info), common, (transport_priority, lifespan), history, resource_limits, topic_data)| Body::Topic {
            key,
            name,
            type_name,
            type_info,
            common,
            transport_priority,
            lifespan,
            history,
            resource_limits,
            topic_data,
        });
    prop_oneof![participant, publication, subscription, topic].boxed()
}

/// pids in 0x0000..0x3fff that no OMG specification (DDSI-RTPS 2.5 tables 9.13/9.18, XTypes 1.3, Security 1.1
/// 0x1001..0x1fff reserved range avoided) assigns
fn unassigned_standard_pid() -> impl Strategy<Value = u16> {
    prop_oneof![0x0100u16..0x0fff, 0x2000u16..0x3fff]
}

fn foreign_op() -> impl Strategy<Value = ForeignOp> {
    prop_oneof![
        3 => (0x8000u16..=0xffff, 0u8..16, any::<u8>(), any::<u16>()).prop_map(|(pid, words, fill, at)| ForeignOp::Vendor { pid, words, fill, at }),
        3 => (unassigned_standard_pid(), 0u8..16, any::<u8>(), any::<u16>()).prop_map(|(pid, words, fill, at)| ForeignOp::UnknownStandard { pid, words, fill, at }),
        2 => (0u8..4, any::<u16>()).prop_map(|(which, at)| ForeignOp::StandardUnused { which, at }),
        2 => any::<u64>().prop_map(|seed| ForeignOp::Reorder { seed }),
    ]
}

/// `oversize_share_percent`: share of cases allowed to contain octet sequences the wire format cannot carry
pub fn case_strategy(oversize_share_percent: u32) -> BoxedStrategy<Case13> {
    let foreign = prop_oneof![
        1 => Just(vec![]),
        1 => prop::collection::vec(foreign_op(), 1..=3),
    ];
    prop_oneof![
        (100 - oversize_share_percent) => (body(false), foreign.clone()).prop_map(|(body, foreign)| Case13 { body, foreign }),
        oversize_share_percent => body(true).prop_map(|body| Case13 { body, foreign: vec![] }),
    ]
    .boxed()
}

// ------------------------------------------------------------------------------------------------
// building the dust-dds values

fn dk(d: Dur) -> DurationKind {
    match d {
        Dur::Inf => DurationKind::Infinite,
        Dur::Fin(s, n) => DurationKind::Finite(Duration::new(s, n)),
    }
}

fn locators(v: &[Loc]) -> Vec<Locator> {
    v.iter().map(|l| Locator::new(l.kind, l.port, l.addr)).collect()
}

fn durability_kind(k: u8) -> DurabilityQosPolicyKind {
    match k {
        0 => DurabilityQosPolicyKind::Volatile,
        1 => DurabilityQosPolicyKind::TransientLocal,
        2 => DurabilityQosPolicyKind::Transient,
        _ => DurabilityQosPolicyKind::Persistent,
    }
}

fn liveliness_kind(k: u8) -> LivelinessQosPolicyKind {
    match k {
        0 => LivelinessQosPolicyKind::Automatic,
        1 => LivelinessQosPolicyKind::ManualByParticipant,
        _ => LivelinessQosPolicyKind::ManualByTopic,
    }
}

struct Policies {
    durability: DurabilityQosPolicy,
    deadline: DeadlineQosPolicy,
    latency_budget: LatencyBudgetQosPolicy,
    liveliness: LivelinessQosPolicy,
    reliability: ReliabilityQosPolicy,
    destination_order: DestinationOrderQosPolicy,
    ownership: OwnershipQosPolicy,
    representation: DataRepresentationQosPolicy,
}

/// `reliability_default` is the entity kind's own default (writers: reliable, readers/topics: best effort)
fn policies(c: &Common, reliability_default: ReliabilityQosPolicy) -> Policies {
    Policies {
        durability: c.durability.map(|k| DurabilityQosPolicy { kind: durability_kind(k) }).unwrap_or_default(),
        deadline: c.deadline.map(|d| DeadlineQosPolicy { period: dk(d) }).unwrap_or_default(),
        latency_budget: c.latency_budget.map(|d| LatencyBudgetQosPolicy { duration: dk(d) }).unwrap_or_default(),
        liveliness: c
            .liveliness
            .map(|(k, d)| LivelinessQosPolicy { kind: liveliness_kind(k), lease_duration: dk(d) })
            .unwrap_or_default(),
        reliability: c
            .reliability
            .map(|(k, d)| ReliabilityQosPolicy {
                kind: if k == 0 { ReliabilityQosPolicyKind::BestEffort } else { ReliabilityQosPolicyKind::Reliable },
                max_blocking_time: dk(d),
            })
            .unwrap_or(reliability_default),
        destination_order: c
            .destination_order
            .map(|k| DestinationOrderQosPolicy {
                kind: if k == 0 {
                    DestinationOrderQosPolicyKind::ByReceptionTimestamp
                } else {
                    DestinationOrderQosPolicyKind::BySourceTimestamp
                },
            })
            .unwrap_or_default(),
        ownership: c
            .ownership
            .map(|k| OwnershipQosPolicy { kind: if k == 0 { OwnershipQosPolicyKind::Shared } else { OwnershipQosPolicyKind::Exclusive } })
            .unwrap_or_default(),
        representation: c.representation.clone().map(|value| DataRepresentationQosPolicy { value }).unwrap_or_default(),
    }
}

fn presentation(g: &Group) -> PresentationQosPolicy {
    g.presentation
        .map(|(scope, coherent_access, ordered_access)| PresentationQosPolicy {
            access_scope: if scope == 0 { PresentationQosPolicyAccessScopeKind::Instance } else { PresentationQosPolicyAccessScopeKind::Topic },
            coherent_access,
            ordered_access,
        })
        .unwrap_or_default()
}

fn bytes_of(o: &Option<Octets>) -> Vec<u8> {
    o.as_ref().map(|o| o.bytes()).unwrap_or_default()
}

fn type_of(i: Option<u8>) -> Option<DynamicType<'static>> {
    i.map(|i| type_info_types()[i as usize])
}

pub enum Built {
    Participant(VerifParticipantData),
    Publication(VerifPublicationData),
    Subscription(VerifSubscriptionData),
    Topic(VerifTopicData),
}

pub fn build(b: &Body) -> Built {
    match b {
        Body::Participant {
            key,
            user_data,
            domain_id,
            domain_tag,
            expects_inline_qos,
            metatraffic_unicast,
            metatraffic_multicast,
            default_unicast,
            default_multicast,
            builtin_endpoints,
            manual_liveliness_count,
            builtin_endpoint_qos,
            lease,
        } => Built::Participant(VerifParticipantData {
            key: *key,
            user_data: bytes_of(user_data),
            domain_id: *domain_id,
            domain_tag: domain_tag.clone(),
            expects_inline_qos: *expects_inline_qos,
            metatraffic_unicast_locator_list: locators(metatraffic_unicast),
            metatraffic_multicast_locator_list: locators(metatraffic_multicast),
            default_unicast_locator_list: locators(default_unicast),
            default_multicast_locator_list: locators(default_multicast),
            available_builtin_endpoints: *builtin_endpoints,
            manual_liveliness_count: *manual_liveliness_count,
            builtin_endpoint_qos: *builtin_endpoint_qos,
            lease_duration: Duration::new(lease.0, lease.1),
        }),
        Body::Publication { ep, lifespan, ownership_strength } => {
            let p = policies(&ep.common, DataWriterQos::default().reliability);
            let writer_qos = DataWriterQos {
                durability: p.durability,
                deadline: p.deadline,
                latency_budget: p.latency_budget,
                liveliness: p.liveliness,
                reliability: p.reliability,
                destination_order: p.destination_order,
                lifespan: lifespan.map(|d| LifespanQosPolicy { duration: dk(d) }).unwrap_or_default(),
                user_data: UserDataQosPolicy { value: bytes_of(&ep.user_data) },
                ownership: p.ownership,
                ownership_strength: ownership_strength.map(|value| OwnershipStrengthQosPolicy { value }).unwrap_or_default(),
                representation: p.representation,
                ..Default::default()
            };
            let publisher_qos = PublisherQos {
                presentation: presentation(&ep.group),
                partition: ep.group.partition.clone().map(|name| PartitionQosPolicy { name }).unwrap_or_default(),
                group_data: GroupDataQosPolicy { value: bytes_of(&ep.group.group_data) },
                ..Default::default()
            };
            Built::Publication(VerifPublicationData {
                key: ep.key,
                participant_key: ep.participant_key,
                topic_name: ep.topic_name.clone(),
                type_name: ep.type_name.clone(),
                type_information_of: type_of(ep.type_info),
                writer_qos,
                publisher_qos,
                topic_data: bytes_of(&ep.topic_data),
                group_entity_id: ep.group_entity_id,
                unicast_locator_list: locators(&ep.unicast),
                multicast_locator_list: locators(&ep.multicast),
            })
        }
        Body::Subscription { ep, time_based_filter, type_consistency, expects_inline_qos } => {
            let p = policies(&ep.common, DataReaderQos::default().reliability);
            let reader_qos = DataReaderQos {
                durability: p.durability,
                deadline: p.deadline,
                latency_budget: p.latency_budget,
                liveliness: p.liveliness,
                reliability: p.reliability,
                destination_order: p.destination_order,
                user_data: UserDataQosPolicy { value: bytes_of(&ep.user_data) },
                ownership: p.ownership,
                time_based_filter: time_based_filter.map(|d| TimeBasedFilterQosPolicy { minimum_separation: dk(d) }).unwrap_or_default(),
                representation: p.representation,
                type_consistency: type_consistency
                    .map(|(k, a, b, c, d, e)| TypeConsistencyEnforcementQosPolicy {
                        kind: if k == 0 { TypeConsistencyKind::DisallowTypeCoercion } else { TypeConsistencyKind::AllowTypeCoercion },
                        ignore_sequence_bounds: a,
                        ignore_string_bounds: b,
                        ignore_member_names: c,
                        prevent_type_widening: d,
                        force_type_validation: e,
                    })
                    .unwrap_or_default(),
                ..Default::default()
            };
            let subscriber_qos = SubscriberQos {
                presentation: presentation(&ep.group),
                partition: ep.group.partition.clone().map(|name| PartitionQosPolicy { name }).unwrap_or_default(),
                group_data: GroupDataQosPolicy { value: bytes_of(&ep.group.group_data) },
                ..Default::default()
            };
            Built::Subscription(VerifSubscriptionData {
                key: ep.key,
                participant_key: ep.participant_key,
                topic_name: ep.topic_name.clone(),
                type_name: ep.type_name.clone(),
                type_information_of: type_of(ep.type_info),
                reader_qos,
                subscriber_qos,
                topic_data: bytes_of(&ep.topic_data),
                group_entity_id: ep.group_entity_id,
                unicast_locator_list: locators(&ep.unicast),
                multicast_locator_list: locators(&ep.multicast),
                expects_inline_qos: *expects_inline_qos,
            })
        }
        Body::Topic { key, name, type_name, type_info, common, transport_priority, lifespan, history, resource_limits, topic_data } => {
            let p = policies(common, TopicQos::default().reliability);
            let len = |l: Option<i32>| l.map(Length::Limited).unwrap_or(Length::Unlimited);
            let qos = TopicQos {
                topic_data: TopicDataQosPolicy { value: bytes_of(topic_data) },
                durability: p.durability,
                deadline: p.deadline,
                latency_budget: p.latency_budget,
                liveliness: p.liveliness,
                reliability: p.reliability,
                destination_order: p.destination_order,
                history: history
                    .clone()
                    .map(|h| HistoryQosPolicy {
                        kind: match h {
                            Hist::KeepAll => HistoryQosPolicyKind::KeepAll,
                            Hist::KeepLast(d) => HistoryQosPolicyKind::KeepLast(d),
                        },
                    })
                    .unwrap_or_default(),
                resource_limits: resource_limits
                    .map(|[a, b, c]| ResourceLimitsQosPolicy { max_samples: len(a), max_instances: len(b), max_samples_per_instance: len(c) })
                    .unwrap_or_default(),
                transport_priority: transport_priority.map(|value| TransportPriorityQosPolicy { value }).unwrap_or_default(),
                lifespan: lifespan.map(|d| LifespanQosPolicy { duration: dk(d) }).unwrap_or_default(),
                ownership: p.ownership,
                representation: p.representation,
            };
            Built::Topic(VerifTopicData { key: *key, name: name.clone(), type_name: type_name.clone(), type_information_of: type_of(*type_info), qos })
        }
    }
}

pub fn encode(b: &Built) -> Vec<u8> {
    match b {
        Built::Participant(d) => vh::encode_participant(d),
        Built::Publication(d) => vh::encode_publication(d),
        Built::Subscription(d) => vh::encode_subscription(d),
        Built::Topic(d) => vh::encode_topic(d),
    }
}

// ------------------------------------------------------------------------------------------------
// comparison: first differing field, through the public getters

macro_rules! cmp {
    ($field:literal, $got:expr, $want:expr) => {
        if $got != $want {
            return Some(($field.to_string(), format!("{}: decoded {} but announced {}", $field, short(&$got), short(&$want))));
        }
    };
}

fn short<T: std::fmt::Debug>(v: &T) -> String {
    let s = format!("{v:?}");
    if s.len() > 160 { format!("{}… ({} chars)", &s[..160], s.len()) } else { s }
}

/// `Length::Limited(i32::MAX)` and `Length::Unlimited` are one and the same limit in this API (`From<Length> for
/// i32` maps both to i32::MAX), so resource limits are compared through that mapping (tolerance, see fragment).
fn limits(r: &ResourceLimitsQosPolicy) -> [i32; 3] {
    [r.max_samples.into(), r.max_instances.into(), r.max_samples_per_instance.into()]
}

/// Returns (field, explanation) of the first mismatch.
pub fn decode_and_compare(b: &Built, bytes: &[u8]) -> Option<(String, String)> {
    match b {
        Built::Participant(x) => {
            let y = match vh::decode_participant(bytes) {
                Ok(y) => y,
                Err(e) => return Some(("decode-error".into(), format!("decoding the participant announcement failed: {e}"))),
            };
            cmp!("key", y.key, x.key);
            cmp!("user_data", y.user_data, x.user_data);
            cmp!("domain_id", y.domain_id, x.domain_id);
            cmp!("domain_tag", y.domain_tag, x.domain_tag);
            cmp!("expects_inline_qos", y.expects_inline_qos, x.expects_inline_qos);
            cmp!("metatraffic_unicast_locator_list", y.metatraffic_unicast_locator_list, x.metatraffic_unicast_locator_list);
            cmp!("metatraffic_multicast_locator_list", y.metatraffic_multicast_locator_list, x.metatraffic_multicast_locator_list);
            cmp!("default_unicast_locator_list", y.default_unicast_locator_list, x.default_unicast_locator_list);
            cmp!("default_multicast_locator_list", y.default_multicast_locator_list, x.default_multicast_locator_list);
            cmp!("available_builtin_endpoints", y.available_builtin_endpoints, x.available_builtin_endpoints);
            cmp!("manual_liveliness_count", y.manual_liveliness_count, x.manual_liveliness_count);
            cmp!("builtin_endpoint_qos", y.builtin_endpoint_qos, x.builtin_endpoint_qos);
            cmp!("lease_duration", y.lease_duration, x.lease_duration);
            None
        }
        Built::Publication(x) => {
            let y = match vh::decode_publication(bytes) {
                Ok(y) => y,
                Err(e) => return Some(("decode-error".into(), format!("decoding the publication announcement failed: {e}"))),
            };
            let d = &y.data;
            cmp!("key", d.key().value, x.key);
            cmp!("participant_key", d.participant_key().value, x.participant_key);
            cmp!("topic_name", d.topic_name(), x.topic_name.as_str());
            cmp!("type_name", d.get_type_name(), x.type_name.as_str());
            cmp!("type_information", y.has_type_information, x.type_information_of.is_some());
            cmp!("durability", d.durability(), &x.writer_qos.durability);
            cmp!("deadline", d.deadline(), &x.writer_qos.deadline);
            cmp!("latency_budget", d.latency_budget(), &x.writer_qos.latency_budget);
            cmp!("liveliness", d.liveliness(), &x.writer_qos.liveliness);
            cmp!("reliability", d.reliability(), &x.writer_qos.reliability);
            cmp!("lifespan", d.lifespan(), &x.writer_qos.lifespan);
            cmp!("user_data", d.user_data(), &x.writer_qos.user_data);
            cmp!("ownership", d.ownership(), &x.writer_qos.ownership);
            cmp!("ownership_strength", d.ownership_strength(), &x.writer_qos.ownership_strength);
            cmp!("destination_order", d.destination_order(), &x.writer_qos.destination_order);
            cmp!("presentation", d.presentation(), &x.publisher_qos.presentation);
            cmp!("partition", d.partition(), &x.publisher_qos.partition);
            cmp!("topic_data", d.topic_data().value, x.topic_data);
            cmp!("group_data", d.group_data(), &x.publisher_qos.group_data);
            cmp!("representation", d.representation(), &x.writer_qos.representation);
            cmp!("remote_writer_guid", y.remote_writer_guid, x.key);
            cmp!("group_entity_id", y.group_entity_id, x.group_entity_id);
            cmp!("unicast_locator_list", y.unicast_locator_list, x.unicast_locator_list);
            cmp!("multicast_locator_list", y.multicast_locator_list, x.multicast_locator_list);
            None
        }
        Built::Subscription(x) => {
            let y = match vh::decode_subscription(bytes) {
                Ok(y) => y,
                Err(e) => return Some(("decode-error".into(), format!("decoding the subscription announcement failed: {e}"))),
            };
            let d = &y.data;
            cmp!("key", d.key().value, x.key);
            cmp!("participant_key", d.participant_key().value, x.participant_key);
            cmp!("topic_name", d.topic_name(), x.topic_name.as_str());
            cmp!("type_name", d.get_type_name(), x.type_name.as_str());
            cmp!("type_information", y.has_type_information, x.type_information_of.is_some());
            cmp!("durability", d.durability(), &x.reader_qos.durability);
            cmp!("deadline", d.deadline(), &x.reader_qos.deadline);
            cmp!("latency_budget", d.latency_budget(), &x.reader_qos.latency_budget);
            cmp!("liveliness", d.liveliness(), &x.reader_qos.liveliness);
            cmp!("reliability", d.reliability(), &x.reader_qos.reliability);
            cmp!("ownership", d.ownership(), &x.reader_qos.ownership);
            cmp!("destination_order", d.destination_order(), &x.reader_qos.destination_order);
            cmp!("user_data", d.user_data(), &x.reader_qos.user_data);
            cmp!("time_based_filter", d.time_based_filter(), &x.reader_qos.time_based_filter);
            cmp!("presentation", d.presentation(), &x.subscriber_qos.presentation);
            cmp!("partition", d.partition(), &x.subscriber_qos.partition);
            cmp!("topic_data", d.topic_data().value, x.topic_data);
            cmp!("group_data", d.group_data(), &x.subscriber_qos.group_data);
            cmp!("representation", d.representation(), &x.reader_qos.representation);
            cmp!("type_consistency", d.type_consistency(), &x.reader_qos.type_consistency);
            cmp!("remote_reader_guid", y.remote_reader_guid, x.key);
            cmp!("group_entity_id", y.group_entity_id, x.group_entity_id);
            cmp!("unicast_locator_list", y.unicast_locator_list, x.unicast_locator_list);
            cmp!("multicast_locator_list", y.multicast_locator_list, x.multicast_locator_list);
            cmp!("expects_inline_qos", y.expects_inline_qos, x.expects_inline_qos);
            None
        }
        Built::Topic(x) => {
            let (d, has_type_information) = match vh::decode_topic(bytes) {
                Ok(y) => y,
                Err(e) => return Some(("decode-error".into(), format!("decoding the topic announcement failed: {e}"))),
            };
            cmp!("key", d.key().value, x.key);
            cmp!("name", d.name(), x.name.as_str());
            cmp!("type_name", d.get_type_name(), x.type_name.as_str());
            cmp!("type_information", has_type_information, x.type_information_of.is_some());
            cmp!("durability", d.durability(), &x.qos.durability);
            cmp!("deadline", d.deadline(), &x.qos.deadline);
            cmp!("latency_budget", d.latency_budget(), &x.qos.latency_budget);
            cmp!("liveliness", d.liveliness(), &x.qos.liveliness);
            cmp!("reliability", d.reliability(), &x.qos.reliability);
            cmp!("transport_priority", d.transport_priority(), &x.qos.transport_priority);
            cmp!("lifespan", d.lifespan(), &x.qos.lifespan);
            cmp!("destination_order", d.destination_order(), &x.qos.destination_order);
            cmp!("history", d.history(), &x.qos.history);
            cmp!("resource_limits", limits(d.resource_limits()), limits(&x.qos.resource_limits));
            cmp!("ownership", d.ownership(), &x.qos.ownership);
            cmp!("topic_data", d.topic_data(), &x.qos.topic_data);
            cmp!("representation", d.representation(), &x.qos.representation);
            None
        }
    }
}

// ------------------------------------------------------------------------------------------------
// foreign parameters

fn insert_at(pl: &mut PList, at: u16, p: Param) {
    let idx = vcore::pt::idx(at, pl.params.len() + 1);
    pl.params.insert(idx, p);
}

fn cdr_string(s: &str) -> Vec<u8> {
    let mut v = ((s.len() + 1) as u32).to_le_bytes().to_vec();
    v.extend_from_slice(s.as_bytes());
    v.push(0);
    while v.len() % 4 != 0 {
        v.push(0);
    }
    v
}

pub fn apply_foreign(pl: &mut PList, op: &ForeignOp) {
    match op {
        ForeignOp::Vendor { pid, words, fill, at } | ForeignOp::UnknownStandard { pid, words, fill, at } => {
            let value = (0..*words as usize * 4).map(|i| fill.wrapping_add(i as u8)).collect();
            insert_at(pl, *at, Param { pid: *pid, value });
        }
        ForeignOp::StandardUnused { which, at } => {
            let p = match which {
                0 => Param { pid: 0x0062, value: cdr_string("participant/entity name") },
                1 => Param { pid: 0x0059, value: vec![0; 8] }, // empty property list + empty binary property list
                2 => Param { pid: 0x0060, value: 1024u32.to_le_bytes().to_vec() },
                _ => Param { pid: crate::plist::PID_PAD, value: vec![0; 4] },
            };
            insert_at(pl, *at, p);
        }
        ForeignOp::Reorder { seed } => {
            // Fisher-Yates on positions, then restore the relative order of equal pids (multi-valued
            // parameters such as locators are ordered lists)
            let mut s = palette::Src(*seed);
            let n = pl.params.len();
            let original = pl.params.clone();
            let mut order: Vec<usize> = (0..n).collect();
            for i in (1..n).rev() {
                let j = s.below(i as u64 + 1) as usize;
                order.swap(i, j);
            }
            let mut shuffled: Vec<Param> = order.iter().map(|&i| original[i].clone()).collect();
            // for each pid, the k-th occurrence in `shuffled` takes the k-th occurrence of that pid in `original`
            let mut seen: std::collections::BTreeMap<u16, usize> = Default::default();
            for p in shuffled.iter_mut() {
                let k = seen.entry(p.pid).or_insert(0);
                let kth = original.iter().filter(|q| q.pid == p.pid).nth(*k).expect("same multiset");
                *p = kth.clone();
                *k += 1;
            }
            pl.params = shuffled;
        }
    }
}

// ------------------------------------------------------------------------------------------------
// evaluation

fn nondefault_policies(b: &Body) -> usize {
    fn common(c: &Common) -> usize {
        [
            c.durability.is_some(),
            c.deadline.is_some(),
            c.latency_budget.is_some(),
            c.liveliness.is_some(),
            c.reliability.is_some(),
            c.destination_order.is_some(),
            c.ownership.is_some(),
            c.representation.is_some(),
        ]
        .iter()
        .filter(|x| **x)
        .count()
    }
    fn ep(e: &Endpoint) -> usize {
        common(&e.common)
            + [e.user_data.is_some(), e.group.presentation.is_some(), e.group.partition.is_some(), e.group.group_data.is_some(), e.topic_data.is_some()]
                .iter()
                .filter(|x| **x)
                .count()
    }
    match b {
        Body::Participant { user_data, .. } => user_data.is_some() as usize,
        Body::Publication { ep: e, lifespan, ownership_strength } => ep(e) + lifespan.is_some() as usize + ownership_strength.is_some() as usize,
        Body::Subscription { ep: e, time_based_filter, type_consistency, .. } => ep(e) + time_based_filter.is_some() as usize + type_consistency.is_some() as usize,
        Body::Topic { common: c, transport_priority, lifespan, history, resource_limits, topic_data, .. } => {
            common(c)
                + [transport_priority.is_some(), lifespan.is_some(), history.is_some(), resource_limits.is_some(), topic_data.is_some()]
                    .iter()
                    .filter(|x| **x)
                    .count()
        }
    }
}

fn octet_fields(b: &Body) -> Vec<(&'static str, usize)> {
    let l = |o: &Option<Octets>| o.as_ref().map(|o| o.len()).unwrap_or(0);
    match b {
        Body::Participant { user_data, .. } => vec![("user_data", l(user_data))],
        Body::Publication { ep, .. } | Body::Subscription { ep, .. } => {
            vec![("user_data", l(&ep.user_data)), ("group_data", l(&ep.group.group_data)), ("topic_data", l(&ep.topic_data))]
        }
        Body::Topic { topic_data, .. } => vec![("topic_data", l(topic_data))],
    }
}

pub const SIG_OVERSIZE: &str = "C13:parameter-length-wraps:octet-sequence-over-65528-bytes";

pub fn eval(case: &Case13) -> CaseOutcome {
    let json = serde_json::to_value(case).unwrap_or(Value::Null);
    let key = vcore::hash_json(&json);
    let octs = octet_fields(&case.body);
    let max_octets = octs.iter().map(|(_, l)| *l).max().unwrap_or(0);
    let oversize = max_octets > MAX_REPRESENTABLE_OCTETS;
    let nondefault = nondefault_policies(&case.body);
    let nontrivial = nondefault >= 3 || max_octets > 1000 || !case.foreign.is_empty();
    let kind = case.body.kind();
    let mut out = CaseOutcome::pass(key, nontrivial).class(format!("kind:{kind}"));
    if nondefault >= 3 {
        out = out.class("nondefault>=3");
    }
    if max_octets > 1000 {
        out = out.class("octets>1000");
    }
    if max_octets > 60_000 && !oversize {
        out = out.class("octets:60001..=65528");
    }
    if oversize {
        out = out.class("octets>65528(not representable)");
    }
    for op in &case.foreign {
        out = out.class(format!("foreign:{}", op.kind()));
    }
    let has_type_info = match &case.body {
        Body::Publication { ep, .. } | Body::Subscription { ep, .. } => ep.type_info.is_some(),
        Body::Topic { type_info, .. } => type_info.is_some(),
        _ => false,
    };
    if has_type_info {
        out = out.class("type-information");
    }

    guard::install_hook();
    let result = std::panic::catch_unwind(|| {
        let built = build(&case.body);
        let bytes = encode(&built);
        let plain = decode_and_compare(&built, &bytes);
        (built, bytes, plain)
    });
    let (built, bytes, plain) = match result {
        Ok(t) => t,
        Err(_) => {
            let (file, msg) = guard::take_last_panic().unwrap_or(("?".into(), "?".into()));
            return out.fail(guard::panic_signature("C13", &file, &msg), format!("{kind} announcement: encode/decode panicked at {file}: {msg}"));
        }
    };
    if out.sample.is_none() {
        out.sample = Some(json!({"kind": kind, "encoded_len": bytes.len(), "nondefault_policies": nondefault,
            "max_octets": max_octets, "foreign": case.foreign.iter().map(|f| f.kind()).collect::<Vec<_>>(),
            "roundtrip_equal": plain.is_none()}));
    }
    if let Some((field, what)) = plain {
        if oversize {
            let (f, l) = octs.iter().max_by_key(|(_, l)| *l).unwrap();
            return out.fail(
                SIG_OVERSIZE,
                format!(
                    "{kind} announcement with {f} of {l} bytes: the 16-bit parameter length cannot hold it and the encoder writes the length modulo 65536 without any error, so the announcement is corrupt ({what})"
                ),
            );
        }
        return out.fail(format!("C13:{kind}:{field}"), format!("{kind} announcement does not round-trip: {what}"));
    }
    if oversize {
        // nothing more to check: the list cannot be parsed by the splicer either
        return out;
    }
    if !case.foreign.is_empty() {
        let Some(mut pl) = PList::parse_le(&bytes) else {
            return out.fail("C13:encoding:not-a-parameter-list", format!("{kind} announcement: the encoded bytes are not a well-formed PL_CDR_LE parameter list"));
        };
        // each op alone is judged first (so the signature names the kind), then all together
        for op in &case.foreign {
            let mut single = pl.clone();
            apply_foreign(&mut single, op);
            let spliced = single.to_bytes();
            let r = std::panic::catch_unwind(|| decode_and_compare(&built, &spliced));
            match r {
                Err(_) => {
                    let (file, msg) = guard::take_last_panic().unwrap_or(("?".into(), "?".into()));
                    return out.fail(guard::panic_signature("C13", &file, &msg), format!("{kind} announcement with a {} parameter: decode panicked at {file}: {msg}", op.kind()));
                }
                Ok(Some((_field, what))) => {
                    return out.fail(
                        format!("C13:foreign-parameter:{}", op.kind()),
                        format!("{kind} announcement decodes correctly, but not after a {} parameter ({op:?}) was spliced into the list: {what}", op.kind()),
                    );
                }
                Ok(None) => {}
            }
        }
        if case.foreign.len() > 1 {
            for op in &case.foreign {
                apply_foreign(&mut pl, op);
            }
            let spliced = pl.to_bytes();
            if let Ok(Some((_f, what))) = std::panic::catch_unwind(|| decode_and_compare(&built, &spliced)) {
                return out.fail("C13:foreign-parameter:combined", format!("{kind} announcement with several foreign parameters {:?}: {what}", case.foreign));
            }
        }
    }
    out
}

pub fn to_json(case: &Case13) -> Value {
    serde_json::to_value(case).unwrap_or(Value::Null)
}

pub fn run(ctx: &vcore::Ctx) -> ! {
    let mut report = vcore::Report::default();
    let known = vcore::Known::load(&ctx.id);
    let rule = "announcement with >= 3 non-default QoS policies, or an octet sequence > 1000 bytes, or >= 1 foreign parameter spliced into the encoded list";
    let meta = vcore::Meta {
        rule,
        assumptions: &[
            "round-trip judged through the verif-hooks wrappers (private codecs) and the public getters of the builtin-topic data",
            "type information is compared by presence only (TypeInformation has no public accessor)",
            "ResourceLimits: Length::Limited(i32::MAX) and Length::Unlimited are the same limit in this API and compare equal",
            "octet sequences > 65528 bytes cannot be carried by one 16-bit-length parameter: generated in 4% of cases only, judged by the same round-trip oracle",
            "the end-to-end half (QoS set through the public API seen in the peer's builtin reader) is checked by the simulation engine",
        ],
        nontrivial_floor: ctx.pick(10_000, 500_000),
    };
    if let Some(path) = &ctx.replay {
        let v = vcore::load_replay(path);
        let case: Case13 = match serde_json::from_value(v) {
            Ok(c) => c,
            Err(e) => {
                eprintln!("replay file does not hold a C13 case: {e}");
                std::process::exit(2);
            }
        };
        let out = eval(&case);
        println!("replaying {} announcement, foreign ops {:?}", case.body.kind(), case.foreign);
        match &out.verdict {
            Some((sig, what)) => {
                println!("oracle: FAIL {sig}\n  {what}");
                report.failures.push(vcore::Failure { signature: sig.clone(), what: what.clone(), case: to_json(&case), shrunk_from: None, shrunk_to: None });
            }
            None => println!("oracle: round-trip holds for this case"),
        }
        vcore::finish(ctx, meta, report);
    }
    let cases: u64 = ctx.pick(60_000, 3_000_000);
    let strategy = case_strategy(4);
    // Passes: a pass ends at its first failure whose signature is neither known nor already reported in this run
    // (it is shrunk and recorded); the next pass continues with the remaining budget, so the whole budget is
    // explored and every distinct signature is reported.
    let mut found: Vec<String> = vec![];
    let mut pass = 0u32;
    while report.stats.evaluations < cases && pass < 12 {
        let remaining = (cases - report.stats.evaluations) as u32;
        let found_now = found.clone();
        let f = vcore::pt::run_cases(
            remaining,
            ctx.rng_seed(&format!("c13-pass{pass}")),
            400,
            &strategy,
            &mut report.stats,
            &known,
            |c| {
                let mut o = eval(c);
                if let Some((sig, _)) = &o.verdict {
                    if found_now.contains(sig) {
                        o.verdict = None;
                        o.classes.push("already-reported-this-run".into());
                    }
                }
                o
            },
            to_json,
        );
        pass += 1;
        match f {
            Some(f) => {
                found.push(f.signature.clone());
                report.failures.push(f);
            }
            None => break,
        }
    }
    vcore::finish(ctx, meta, report);
}
