//! C07 — decoders are total: any byte string gives a value or an error; no panic/abort; memory bounded by a small
//! multiple of the input length.
//!
//! Two generators, one oracle:
//!  (a) structure-aware mutation of valid encodings (pool.rs / mutate.rs), cases evaluated in batches inside forked
//!      children so that refused allocations, aborts, crashes and CPU-limit kills are observations;
//!  (b) libFuzzer targets in /verif/fuzz (oracle inside the target); every crash artifact is converted to the same
//!      replay format and confirmed through the deterministic path of (a) before it is reported.

use crate::mutate;
use crate::pool;
use crate::shared::{
    decoders::{self, Decoder, FUZZ_TARGETS},
    guard,
    palette::{self, Src},
};
use serde_json::{Value, json};
use std::collections::BTreeMap;
use std::path::{Path, PathBuf};
use vcore::{Failure, Known, Report, fork};

pub const SINGLE_REQUEST_CAP: usize = 256 << 20;
pub const CPU_LIMIT_S: i64 = 2;

pub fn alloc_bound(len: usize) -> usize {
    1024 * len + (1 << 20)
}

// ------------------------------------------------------------------------------------------------
// shared-memory result table (parent allocates, child fills)

#[repr(C)]
#[derive(Clone, Copy, Default)]
struct Slot {
    /// 0 not run, 1 running, 2 returned Ok, 3 returned Err, 4 panicked
    state: u64,
    growth: u64,
    biggest: u64,
}

struct Shared {
    ptr: *mut Slot,
    n: usize,
}

impl Shared {
    fn new(n: usize) -> Shared {
        let bytes = (n.max(1) * std::mem::size_of::<Slot>()).next_multiple_of(4096);
        let p = unsafe {
            libc::mmap(std::ptr::null_mut(), bytes, libc::PROT_READ | libc::PROT_WRITE, libc::MAP_SHARED | libc::MAP_ANONYMOUS, -1, 0)
        };
        if p == libc::MAP_FAILED {
            panic!("mmap failed");
        }
        Shared { ptr: p as *mut Slot, n }
    }
    fn get(&self, i: usize) -> Slot {
        assert!(i < self.n);
        unsafe { std::ptr::read_volatile(self.ptr.add(i)) }
    }
    fn set(&self, i: usize, s: Slot) {
        assert!(i < self.n);
        unsafe { std::ptr::write_volatile(self.ptr.add(i), s) }
    }
}

impl Drop for Shared {
    fn drop(&mut self) {
        let bytes = (self.n.max(1) * std::mem::size_of::<Slot>()).next_multiple_of(4096);
        unsafe {
            libc::munmap(self.ptr as *mut libc::c_void, bytes);
        }
    }
}

// ------------------------------------------------------------------------------------------------
// one observation

#[derive(Clone, Debug, PartialEq)]
pub enum Obs {
    Ok { growth: usize },
    Err { growth: usize },
    Panic { file: String, msg: String },
    AllocRefused { bytes: usize },
    Signal(i32),
    CpuLimit,
    /// harness problem (wall-clock safety net, unexpected exit): never a violation
    Harness(String),
}

/// Verdict of the oracle for one observation: `(signature, explanation)`.
pub fn judge(d: Decoder, len: usize, obs: &Obs) -> Option<(String, String)> {
    let label = d.label();
    match obs {
        Obs::Ok { growth } | Obs::Err { growth } => {
            if *growth > alloc_bound(len) {
                Some((
                    format!("C07:alloc:peak-over-bound:{label}"),
                    format!(
                        "decoder {} on a {len}-byte input: peak heap growth {growth} bytes > bound 1024*len + 1 MiB = {}",
                        d.name(),
                        alloc_bound(len)
                    ),
                ))
            } else {
                None
            }
        }
        Obs::Panic { file, msg } => Some((
            guard::panic_signature("C07", file, msg),
            format!("decoder {} panicked on a {len}-byte input at {}: {msg}", d.name(), guard::normalise_file(file)),
        )),
        Obs::AllocRefused { bytes } if *bytes > SINGLE_REQUEST_CAP => Some((
            format!("C07:alloc:single-request-over-cap:{label}"),
            format!("decoder {} on a {len}-byte input requested a single allocation of {bytes} bytes (> 256 MiB cap; the process aborts when the allocator refuses)", d.name()),
        )),
        Obs::AllocRefused { bytes } => Some((
            format!("C07:alloc:peak-over-bound:{label}"),
            format!(
                "decoder {} on a {len}-byte input requested a single allocation of {bytes} bytes, which alone exceeds the bound 1024*len + 1 MiB = {} (request refused by the harness allocator)",
                d.name(),
                alloc_bound(len)
            ),
        )),
        Obs::Signal(sig) => Some((
            format!("C07:crash:signal{sig}:{label}"),
            format!("decoder {} on a {len}-byte input: the process was killed by signal {sig}", d.name()),
        )),
        Obs::CpuLimit => Some((
            format!("C07:hang:{label}"),
            format!("decoder {} on a {len}-byte input used more than {CPU_LIMIT_S} s of CPU", d.name()),
        )),
        Obs::Harness(_) => None,
    }
}

fn arm_cpu_timer(seconds: i64) {
    let t = libc::itimerval {
        it_interval: libc::timeval { tv_sec: 0, tv_usec: 0 },
        it_value: libc::timeval { tv_sec: seconds, tv_usec: 0 },
    };
    unsafe {
        libc::setitimer(libc::ITIMER_PROF, &t, std::ptr::null_mut());
    }
}

/// Runs cases `[from, to)` in the current (child) process, recording into the table; panic texts go to `wfd`.
fn child_run(cases: &[(Decoder, Vec<u8>)], table: &Shared, from: usize, wfd: i32) -> Vec<u8> {
    unsafe {
        // silence "memory allocation of N bytes failed" lines of aborting children
        let devnull = libc::open(c"/dev/null".as_ptr(), libc::O_WRONLY);
        if devnull >= 0 {
            libc::dup2(devnull, 2);
        }
        libc::signal(libc::SIGPROF, libc::SIG_DFL);
    }
    guard::install_hook();
    let debug = std::env::var("VERIF_DEBUG").is_ok();
    vcore::alloc::set_report_fd(wfd);
    for i in from..cases.len() {
        let (d, bytes) = &cases[i];
        // a single request above the per-call bound is by itself a violation of the bound: refusing it there (instead
        // of at 256 MiB) gives the same verdict without spending seconds in multi-million-element loops
        vcore::alloc::set_single_request_cap(SINGLE_REQUEST_CAP.min(alloc_bound(bytes.len())));
        table.set(i, Slot { state: 1, growth: 0, biggest: 0 });
        arm_cpu_timer(CPU_LIMIT_S);
        let t_case = if debug { Some(std::time::Instant::now()) } else { None };
        vcore::alloc::reset_peak();
        let base = vcore::alloc::current();
        let r = std::panic::catch_unwind(|| decoders::decode(*d, bytes));
        let growth = vcore::alloc::peak().saturating_sub(base) as u64;
        let biggest = vcore::alloc::biggest() as u64;
        arm_cpu_timer(0);
        vcore::alloc::set_single_request_cap(usize::MAX);
        if let Some(t) = t_case {
            let ms = t.elapsed().as_millis();
            if ms >= 20 {
                let line = format!("SLOW\t{i}\t{ms}\t{}\t{}\tgrowth={growth}\n", d.name(), bytes.len());
                unsafe {
                    libc::write(wfd, line.as_ptr() as *const libc::c_void, line.len());
                }
            }
        }
        match r {
            Ok(ok) => table.set(i, Slot { state: if ok { 2 } else { 3 }, growth, biggest }),
            Err(_) => {
                let (file, msg) = guard::take_last_panic().unwrap_or(("?".into(), "?".into()));
                let line = format!("PANIC\t{i}\t{file}\t{}\n", msg.replace(['\n', '\t'], " "));
                unsafe {
                    libc::write(wfd, line.as_ptr() as *const libc::c_void, line.len());
                }
                table.set(i, Slot { state: 4, growth, biggest });
            }
        }
    }
    Vec::new()
}

/// Evaluates all cases, forking a new child whenever one dies. Deterministic given the cases.
pub fn observe_all(cases: &[(Decoder, Vec<u8>)]) -> Vec<Obs> {
    let n = cases.len();
    let table = Shared::new(n);
    let mut panics: BTreeMap<usize, (String, String)> = BTreeMap::new();
    let mut deaths: BTreeMap<usize, Obs> = BTreeMap::new();
    let mut from = 0;
    let mut harness_note: Option<String> = None;
    while from < n {
        let limits = fork::Limits { cpu_s: 0, wall_s: 900, as_bytes: 0 };
        let res = fork::run_in_child(limits, |wfd| child_run(cases, &table, from, wfd));
        let text = String::from_utf8_lossy(&res.payload).to_string();
        for line in text.lines() {
            if line.starts_with("SLOW\t") {
                eprintln!("{line}");
            }
            if let Some(rest) = line.strip_prefix("PANIC\t") {
                let mut it = rest.splitn(3, '\t');
                if let (Some(i), Some(file), Some(msg)) = (it.next(), it.next(), it.next()) {
                    if let Ok(i) = i.parse::<usize>() {
                        panics.insert(i, (file.to_string(), msg.to_string()));
                    }
                }
            }
        }
        // first case left in state "running" is where the child died
        let died_at = (from..n).find(|&i| table.get(i).state == 1);
        match (&res.exit, died_at) {
            (fork::Exit::Code(0), None) => break,
            (exit, Some(i)) => {
                let obs = if let Some(bytes) = res.alloc_refused() {
                    Obs::AllocRefused { bytes }
                } else {
                    match exit {
                        fork::Exit::Signal(s) if *s == libc::SIGPROF || *s == libc::SIGXCPU => Obs::CpuLimit,
                        fork::Exit::Signal(s) if *s == libc::SIGALRM => Obs::Harness("wall-clock safety net".into()),
                        fork::Exit::Signal(s) => Obs::Signal(*s),
                        fork::Exit::Code(c) => Obs::Harness(format!("child exited with code {c} inside a case")),
                    }
                };
                if std::env::var("VERIF_DEBUG").is_ok() {
                    eprintln!("death at case {i}/{n}: {obs:?} decoder {} len {} cpu_ms {}", cases[i].0.name(), cases[i].1.len(), res.cpu_ms);
                }
                deaths.insert(i, obs);
                from = i + 1;
            }
            (exit, None) => {
                harness_note = Some(format!("child ended with {exit:?} outside any case"));
                break;
            }
        }
    }
    (0..n)
        .map(|i| {
            if let Some(o) = deaths.get(&i) {
                return o.clone();
            }
            let s = table.get(i);
            match s.state {
                2 => Obs::Ok { growth: s.growth as usize },
                3 => Obs::Err { growth: s.growth as usize },
                4 => {
                    let (file, msg) = panics.get(&i).cloned().unwrap_or(("?".into(), "?".into()));
                    Obs::Panic { file, msg }
                }
                _ => Obs::Harness(harness_note.clone().unwrap_or_else(|| "case not evaluated".into())),
            }
        })
        .collect()
}

pub fn observe_one(d: Decoder, bytes: &[u8]) -> Obs {
    observe_all(&[(d, bytes.to_vec())]).pop().unwrap()
}

// ------------------------------------------------------------------------------------------------
// replay format

fn hex(b: &[u8]) -> String {
    let mut s = String::with_capacity(b.len() * 2);
    for x in b {
        s.push_str(&format!("{x:02x}"));
    }
    s
}

fn unhex(s: &str) -> Option<Vec<u8>> {
    if s.len() % 2 != 0 {
        return None;
    }
    (0..s.len() / 2).map(|i| u8::from_str_radix(&s[2 * i..2 * i + 2], 16).ok()).collect()
}

pub fn case_json(d: Decoder, bytes: &[u8], origin: &str) -> Value {
    json!({"decoder": d.name(), "len": bytes.len(), "hex": hex(bytes), "origin": origin})
}

pub fn case_from_json(v: &Value) -> Option<(Decoder, Vec<u8>)> {
    let d = Decoder::parse(v.get("decoder")?.as_str()?)?;
    let b = unhex(v.get("hex")?.as_str()?)?;
    Some((d, b))
}

// ------------------------------------------------------------------------------------------------
// minimisation (byte level, bounded number of child evaluations)

fn minimise(d: Decoder, bytes: &[u8], signature: &str, budget: usize) -> Vec<u8> {
    let same = |cand: &[u8]| -> bool {
        let obs = observe_one(d, cand);
        matches!(judge(d, cand.len(), &obs), Some((sig, _)) if sig == signature)
    };
    let mut cur = bytes.to_vec();
    let mut evals = 0usize;
    // 1. truncate from the end (binary search on the shortest failing prefix is not monotone in general: try halves)
    let mut step = cur.len() / 2;
    while step >= 1 && evals < budget {
        if cur.len() > step {
            let cand = cur[..cur.len() - step].to_vec();
            evals += 1;
            if same(&cand) {
                cur = cand;
                continue;
            }
        }
        step /= 2;
    }
    // 2. remove aligned chunks
    let mut chunk = 16usize;
    while chunk >= 4 && evals < budget {
        let mut off = 0;
        while off + chunk <= cur.len() && evals < budget {
            let mut cand = cur.clone();
            cand.drain(off..off + chunk);
            evals += 1;
            if same(&cand) {
                cur = cand;
            } else {
                off += chunk;
            }
        }
        chunk /= 2;
    }
    // 3. zero bytes (canonical form)
    let mut i = 0;
    while i < cur.len() && evals < budget {
        if cur[i] != 0 {
            let mut cand = cur.clone();
            cand[i] = 0;
            evals += 1;
            if same(&cand) {
                cur = cand;
            }
        }
        i += 1;
    }
    cur
}

// ------------------------------------------------------------------------------------------------
// campaign bookkeeping

struct Findings {
    /// signature → (decoder, smallest failing input, explanation, origin)
    first: BTreeMap<String, (Decoder, Vec<u8>, String, String)>,
}

impl Findings {
    fn note(&mut self, sig: &str, d: Decoder, bytes: &[u8], what: &str, origin: &str) {
        match self.first.get(sig) {
            Some((_, b, _, _)) if b.len() <= bytes.len() => {}
            _ => {
                self.first.insert(sig.to_string(), (d, bytes.to_vec(), what.to_string(), origin.to_string()));
            }
        }
    }
}

struct Case {
    decoder: Decoder,
    bytes: Vec<u8>,
    /// mutation of a valid encoding (or a valid encoding itself)
    derived: bool,
    classes: Vec<&'static str>,
}

fn record(
    report: &mut Report,
    known: &Known,
    findings: &mut Findings,
    cases: &[Case],
    obs: &[Obs],
    origin: &str,
) {
    for (c, o) in cases.iter().zip(obs) {
        let returned = matches!(o, Obs::Ok { .. } | Obs::Err { .. });
        let ok = matches!(o, Obs::Ok { .. });
        // rule: the decoder got past the header = it returned Ok, or the input is a mutation of a valid encoding
        let nontrivial = ok || c.derived;
        let key = vcore::mix(0, &format!("{}:{}", c.decoder.name(), hex_short(&c.bytes)), c.bytes.len() as u64);
        let mut classes: Vec<String> = c.classes.iter().map(|s| format!("mut:{s}")).collect();
        classes.push(format!("decoder:{}", c.decoder.label()));
        classes.push(
            match o {
                Obs::Ok { .. } => "result:ok",
                Obs::Err { .. } => "result:err",
                Obs::Panic { .. } => "result:panic",
                Obs::AllocRefused { .. } => "result:alloc-refused(abort)",
                Obs::Signal(_) => "result:signal",
                Obs::CpuLimit => "result:cpu-limit",
                Obs::Harness(_) => "result:harness",
            }
            .to_string(),
        );
        report.stats.case(key, nontrivial && returned || !returned, &classes);
        if let Obs::Harness(why) = o {
            report.inconclusive.push(format!("case of {} not judged: {why}", c.decoder.name()));
            continue;
        }
        if report.stats.wants_sample() && nontrivial && report.stats.evaluations % 9973 == 1 {
            report.stats.sample(json!({"decoder": c.decoder.name(), "len": c.bytes.len(), "mutations": c.classes, "result": format!("{o:?}").chars().take(120).collect::<String>()}));
        }
        if let Some((sig, what)) = judge(c.decoder, c.bytes.len(), o) {
            if known.matches(&sig) {
                *report.stats.excluded_known.entry(sig).or_insert(0) += 1;
            } else {
                findings.note(&sig, c.decoder, &c.bytes, &what, origin);
            }
        }
    }
}

fn hex_short(b: &[u8]) -> String {
    // distinctness key: full content hash (FNV) rather than the hex text for long inputs
    let mut h: u64 = 0xcbf29ce484222325;
    for x in b {
        h ^= *x as u64;
        h = h.wrapping_mul(0x100000001b3);
    }
    format!("{h:016x}")
}

// ------------------------------------------------------------------------------------------------
// committed seeds

fn fuzz_dir() -> PathBuf {
    vcore::verif_root().join("fuzz")
}

fn read_seed_dir(target: &str) -> Vec<(String, Vec<u8>)> {
    let dir = fuzz_dir().join("seeds").join(target);
    let mut v = vec![];
    if let Ok(rd) = std::fs::read_dir(&dir) {
        let mut names: Vec<PathBuf> = rd.filter_map(|e| e.ok().map(|e| e.path())).filter(|p| p.is_file()).collect();
        names.sort();
        for p in names {
            if let Ok(b) = std::fs::read(&p) {
                v.push((p.file_name().unwrap().to_string_lossy().to_string(), b));
            }
        }
    }
    v
}

/// `disc C07 quick --write-seeds`: regenerates /verif/fuzz/seeds/<target>/ from the generators (deterministic).
fn write_seeds() -> ! {
    let pool = pool::build(vcore::mix(1, "C07/seed-corpus", 0), 1);
    let mut per_target: BTreeMap<&'static str, Vec<Vec<u8>>> = BTreeMap::new();
    for t in FUZZ_TARGETS {
        per_target.insert(t, vec![vec![]]); // the empty input
    }
    for s in pool::repository_test_vectors() {
        per_target.get_mut(s.decoder.fuzz_target()).unwrap().push(decoders::fuzz_input(s.decoder, &s.bytes));
    }
    // generator outputs: small ones only, a bounded number per decoder
    let mut count: BTreeMap<String, usize> = BTreeMap::new();
    for s in &pool.seeds {
        let limit = match s.decoder {
            Decoder::Payload(_) => 4,
            _ => 40,
        };
        let c = count.entry(s.decoder.name()).or_insert(0);
        if *c >= limit || s.bytes.len() > 600 {
            continue;
        }
        *c += 1;
        per_target.get_mut(s.decoder.fuzz_target()).unwrap().push(decoders::fuzz_input(s.decoder, &s.bytes));
    }
    let root = fuzz_dir().join("seeds");
    for (t, files) in per_target {
        let dir = root.join(t);
        let _ = std::fs::remove_dir_all(&dir);
        std::fs::create_dir_all(&dir).expect("create seed dir");
        let mut written = std::collections::BTreeSet::new();
        for (i, f) in files.iter().enumerate() {
            let name = format!("{i:04}-{}", hex_short(f));
            if written.insert(hex_short(f)) {
                std::fs::write(dir.join(name), f).expect("write seed");
            }
        }
        println!("{t}: {} seed files", written.len());
    }
    std::process::exit(0);
}

// ------------------------------------------------------------------------------------------------
// libFuzzer part

struct FuzzOutcome {
    ran: bool,
    notes: Vec<String>,
}

fn fuzz_bin(target: &str) -> PathBuf {
    vcore::verif_root().join("target-fuzz").join("x86_64-unknown-linux-gnu").join("release").join(target)
}

pub const FUZZ_BUILD_CMD: &str =
    "cd /verif/fuzz && cp -n /repo/Cargo.lock Cargo.lock; CARGO_NET_OFFLINE=true cargo +nightly fuzz build -O -s none --target-dir /verif/target-fuzz";

fn build_fuzz_targets() -> Result<(), String> {
    let dir = fuzz_dir();
    if !dir.join("Cargo.toml").exists() {
        return Err("no /verif/fuzz crate".into());
    }
    if !dir.join("Cargo.lock").exists() {
        let _ = std::fs::copy("/repo/Cargo.lock", dir.join("Cargo.lock"));
    }
    let out = std::process::Command::new("cargo")
        .args(["+nightly", "fuzz", "build", "-O", "-s", "none", "--target-dir"])
        .arg(vcore::verif_root().join("target-fuzz"))
        .current_dir(&dir)
        .env("CARGO_NET_OFFLINE", "true")
        .env_remove("CARGO_TARGET_DIR")
        .env_remove("RUSTFLAGS")
        .output()
        .map_err(|e| format!("cannot run cargo fuzz: {e}"))?;
    if !out.status.success() {
        let err = String::from_utf8_lossy(&out.stderr);
        let tail: String = err.lines().rev().take(15).collect::<Vec<_>>().into_iter().rev().collect::<Vec<_>>().join("\n");
        return Err(format!("cargo fuzz build failed:\n{tail}"));
    }
    Ok(())
}

fn copy_dir(from: &Path, to: &Path) {
    let _ = std::fs::remove_dir_all(to);
    std::fs::create_dir_all(to).ok();
    if let Ok(rd) = std::fs::read_dir(from) {
        for e in rd.flatten() {
            if e.path().is_file() {
                let _ = std::fs::copy(e.path(), to.join(e.file_name()));
            }
        }
    }
}

fn run_fuzz(ctx: &vcore::Ctx, report: &mut Report, known: &Known, findings: &mut Findings) -> FuzzOutcome {
    let mut notes = vec![];
    if std::env::var("VERIF_C07_NO_FUZZ").is_ok() {
        notes.push("libFuzzer part skipped (VERIF_C07_NO_FUZZ set)".into());
        return FuzzOutcome { ran: false, notes };
    }
    if let Err(e) = build_fuzz_targets() {
        report.inconclusive.push(format!("libFuzzer targets not built ({e}); setup: {FUZZ_BUILD_CMD}"));
        return FuzzOutcome { ran: false, notes };
    }
    let base_runs: u64 = ctx.pick(60_000, 2_000_000);
    let work = fuzz_dir().join("corpus-work");
    let artifacts_root = fuzz_dir().join("artifacts");
    let mut total_execs = 0u64;
    for target in FUZZ_TARGETS {
        let bin = fuzz_bin(target);
        if !bin.exists() {
            report.inconclusive.push(format!("fuzz target binary missing: {}", bin.display()));
            continue;
        }
        let corpus = work.join(target);
        copy_dir(&fuzz_dir().join("seeds").join(target), &corpus);
        let art = artifacts_root.join(target);
        let _ = std::fs::remove_dir_all(&art);
        std::fs::create_dir_all(&art).ok();
        // the type-lookup types are deep (TypeObject): ~6x slower per execution than the other targets
        let runs = if *target == "type_lookup" { base_runs / 4 } else { base_runs };
        let seed = (vcore::mix(ctx.seed, &format!("C07/fuzz/{target}"), 0) % 0x7fff_fffe) + 1;
        let out = std::process::Command::new(&bin)
            .arg(&corpus)
            .arg("-len_control=0")
            .arg(format!("-seed={seed}"))
            .arg(format!("-runs={runs}"))
            .arg("-max_len=4096")
            .arg("-timeout=10")
            .arg("-rss_limit_mb=3072")
            .arg("-malloc_limit_mb=256")
            .arg("-print_final_stats=1")
            .arg(format!("-artifact_prefix={}/", art.display()))
            .env("VERIF_ROOT", vcore::verif_root())
            .env_remove("VERIF_FUZZ_STRICT")
            .output();
        let out = match out {
            Ok(o) => o,
            Err(e) => {
                report.inconclusive.push(format!("cannot run fuzz target {target}: {e}"));
                continue;
            }
        };
        let stderr = String::from_utf8_lossy(&out.stderr);
        let execs = stderr
            .lines()
            .find_map(|l| l.strip_prefix("stat::number_of_executed_units:").and_then(|v| v.trim().parse::<u64>().ok()))
            .unwrap_or(0);
        total_execs += execs;
        report.stats.class_n(&format!("fuzz:{target}:executions"), execs);
        let excluded: u64 = stderr.lines().filter(|l| l.starts_with("VERIF-FUZZ known-finding-skipped")).count() as u64;
        // the target prints a summary line of allow-listed hits at exit
        for l in stderr.lines() {
            if let Some(rest) = l.strip_prefix("VERIF-FUZZ allow-listed ") {
                // "VERIF-FUZZ allow-listed <count> <signature>"
                let mut it = rest.splitn(2, ' ');
                if let (Some(c), Some(sig)) = (it.next(), it.next()) {
                    if let Ok(c) = c.parse::<u64>() {
                        *report.stats.excluded_known.entry(sig.trim().to_string()).or_insert(0) += c;
                    }
                }
            }
        }
        let _ = excluded;
        // artifacts → confirm through the deterministic path
        let mut arts: Vec<PathBuf> = std::fs::read_dir(&art).map(|rd| rd.flatten().map(|e| e.path()).filter(|p| p.is_file()).collect()).unwrap_or_default();
        arts.sort();
        if !out.status.success() && arts.is_empty() {
            let tail: Vec<&str> = stderr.lines().rev().take(6).collect();
            notes.push(format!("fuzz target {target} exited with {:?} without an artifact: {}", out.status.code(), tail.into_iter().rev().collect::<Vec<_>>().join(" | ")));
        }
        for a in arts {
            let Ok(data) = std::fs::read(&a) else { continue };
            let Some((d, bytes)) = decoders::split_fuzz_input(target, &data) else {
                notes.push(format!("artifact {} does not map to a decoder input", a.display()));
                continue;
            };
            let obs = observe_one(d, bytes);
            report.stats.class(&format!("fuzz:{target}:artifacts"));
            match judge(d, bytes.len(), &obs) {
                Some((sig, what)) => {
                    if known.matches(&sig) {
                        *report.stats.excluded_known.entry(sig).or_insert(0) += 1;
                    } else {
                        findings.note(&sig, d, bytes, &what, &format!("libFuzzer target {target}"));
                    }
                }
                None => notes.push(format!(
                    "artifact {} of target {target} not confirmed by the deterministic path (observed {obs:?}); not reported",
                    a.file_name().unwrap().to_string_lossy()
                )),
            }
        }
    }
    report.stats.extra.insert("fuzz_executions".into(), json!(total_execs));
    FuzzOutcome { ran: true, notes }
}

// ------------------------------------------------------------------------------------------------
// entry point

fn meta<'a>(floor: u64) -> vcore::Meta<'a> {
    vcore::Meta {
        rule: "the decoder returned Ok, or the input is a mutation (<= 3 edits) of a valid encoding, i.e. decoding got past the header; distinct by (decoder, input bytes)",
        assumptions: &[
            "harness profile: release, overflow-checks on (panics that exist only with overflow checks carry :profile=overflow-checks)",
            "allocation bound per decode call: peak heap growth <= 1024*len + 1 MiB (a single request above that bound is refused by the counting allocator and reported as peak-over-bound; above 256 MiB as single-request-over-cap); a refused request aborts the child, which the parent observes",
            "CPU limit per input 2 s (ITIMER_PROF in the forked child)",
            "payload types: the 60-type palette of supported shapes; maps, bitsets, aliases, CHAR16 and sequences of sequences are todo!() in the library and not 'supported data types'",
            "libFuzzer campaigns are pinned by -seed/-runs on a fresh copy of the committed seeds; every artifact is confirmed through the deterministic in-process path before it is reported",
        ],
        nontrivial_floor: floor,
    }
}

pub fn run(ctx: &vcore::Ctx) -> ! {
    if ctx.extra.iter().any(|a| a == "--write-seeds") {
        write_seeds();
    }
    if ctx.extra.iter().any(|a| a == "--palette-selftest") {
        palette_selftest();
    }
    let known = Known::load(&ctx.id);
    let mut report = Report::default();

    if let Some(path) = &ctx.replay {
        let v = vcore::load_replay(path);
        let Some((d, bytes)) = case_from_json(&v) else {
            eprintln!("replay file does not hold a C07 case (decoder + hex)");
            std::process::exit(2);
        };
        let obs = observe_one(d, &bytes);
        println!("replaying decoder {} on {} bytes: observed {:?}", d.name(), bytes.len(), obs);
        match judge(d, bytes.len(), &obs) {
            Some((sig, what)) => {
                println!("oracle: FAIL {sig}\n  {what}");
                report.failures.push(Failure { signature: sig, what, case: case_json(d, &bytes, "replay"), shrunk_from: None, shrunk_to: None });
            }
            None => println!("oracle: the decoder returned normally within the allocation bound"),
        }
        vcore::finish(ctx, meta(0), report);
    }

    // known unchecked-length findings: thin out the inputs that can only re-trigger them (counted below)
    let alloc_known = ["payload_decode", "discovery_sedp_pub", "discovery_sedp_sub", "discovery_topic"]
        .iter()
        .all(|d| known.matches(&format!("C07:alloc:single-request-over-cap:{d}")) && known.matches(&format!("C07:alloc:peak-over-bound:{d}")));
    mutate::AVOID_HUGE_LENGTHS.store(alloc_known, std::sync::atomic::Ordering::Relaxed);
    let mut findings = Findings { first: BTreeMap::new() };
    let scale = ctx.pick(1usize, 4);
    let pool = pool::build(ctx.rng_seed("pool"), scale);
    report.stats.extra.insert("pool_size".into(), json!(pool.seeds.len()));
    report.stats.extra.insert("pool_serializations_skipped".into(), json!(pool.skipped_serializations));

    // index seeds per decoder (for crossover donors)
    let mut by_decoder: BTreeMap<Decoder, Vec<usize>> = BTreeMap::new();
    for (i, s) in pool.seeds.iter().enumerate() {
        by_decoder.entry(s.decoder).or_default().push(i);
    }

    // phase 0: the valid encodings themselves + committed seeds + repository vectors through every decoder of their family
    let mut batch: Vec<Case> = vec![];
    for s in &pool.seeds {
        batch.push(Case { decoder: s.decoder, bytes: s.bytes.clone(), derived: true, classes: vec!["valid"] });
    }
    for s in pool::repository_test_vectors() {
        batch.push(Case { decoder: s.decoder, bytes: s.bytes, derived: true, classes: vec!["repository-test-vector"] });
    }
    let all_decoders = Decoder::all();
    let mut committed = 0;
    for target in FUZZ_TARGETS {
        for (_name, data) in read_seed_dir(target) {
            committed += 1;
            // through the decoder the seed belongs to ...
            if let Some((d, bytes)) = decoders::split_fuzz_input(target, &data) {
                batch.push(Case { decoder: d, bytes: bytes.to_vec(), derived: true, classes: vec!["committed-seed"] });
            }
            // ... and through every other decoder (cross-format confusion), one palette type in eight for payloads
            for (k, d) in all_decoders.iter().enumerate() {
                if matches!(d, Decoder::Payload(_)) && (k + committed) % 16 != 0 {
                    continue;
                }
                batch.push(Case { decoder: *d, bytes: data.clone(), derived: false, classes: vec!["committed-seed-cross"] });
            }
        }
    }
    report.stats.extra.insert("committed_seeds".into(), json!(committed));
    run_batch(&mut report, &known, &mut findings, batch, "valid encodings and committed seeds");

    let t_phase0 = ctx.t0.elapsed().as_secs_f64();
    // decoder families and their share of the generated cases (sweep and random mutation alike)
    // 0 rtps, 1 spdp, 2 sedp_pub, 3 sedp_sub, 4 topic, 5 type lookup, 6 user payloads
    let family_of = |d: Decoder| -> usize {
        match d {
            Decoder::RtpsMessage => 0,
            Decoder::Spdp => 1,
            Decoder::SedpPub => 2,
            Decoder::SedpSub => 3,
            Decoder::Topic => 4,
            Decoder::TypeLookupRequest | Decoder::TypeLookupReply => 5,
            Decoder::Payload(_) => 6,
        }
    };
    const FAMILY_SHARE: [usize; 7] = [22, 9, 9, 9, 9, 6, 36];
    let mut family_seeds: Vec<Vec<usize>> = vec![vec![]; 7];
    for (i, sd) in pool.seeds.iter().enumerate() {
        family_seeds[family_of(sd.decoder)].push(i);
    }

    // phase 1: systematic sweep (truncation at every offset, every length-like word × boundary values),
    // per family: seeds in round-robin over the family's decoders, smallest first, until the family's budget is used
    let sweep_budget: usize = ctx.pick(32_000, 300_000);
    let mut batch: Vec<Case> = vec![];
    for fam in 0..7 {
        let fam_budget = sweep_budget * FAMILY_SHARE[fam] / 100;
        let mut lists: Vec<Vec<usize>> = by_decoder
            .iter()
            .filter(|(d, _)| family_of(**d) == fam)
            .map(|(_, v)| {
                let mut v = v.clone();
                v.sort_by_key(|&i| (pool.seeds[i].bytes.len(), i));
                v
            })
            .collect();
        let mut order: Vec<usize> = vec![];
        let mut k = 0;
        loop {
            let mut any = false;
            for l in lists.iter_mut() {
                if k < l.len() {
                    order.push(l[k]);
                    any = true;
                }
            }
            if !any {
                break;
            }
            k += 1;
        }
        let mut produced = 0usize;
        for &i in &order {
            let sd = &pool.seeds[i];
            if sd.bytes.len() > 700 {
                continue;
            }
            let sw = mutate::sweep(&sd.bytes, mutate::shape_of(sd.decoder));
            if produced + sw.len() > fam_budget {
                break;
            }
            produced += sw.len();
            for (b, class) in sw {
                batch.push(Case { decoder: sd.decoder, bytes: b, derived: true, classes: vec![class] });
            }
            if batch.len() >= 20_000 {
                run_batch(&mut report, &known, &mut findings, std::mem::take(&mut batch), "systematic sweep");
            }
        }
    }
    run_batch(&mut report, &known, &mut findings, batch, "systematic sweep");
    let t_phase1 = ctx.t0.elapsed().as_secs_f64();

    // phase 2: random structure-aware mutation
    let random_cases: usize = ctx.pick(85_000, 900_000);
    let mut rng = Src(ctx.rng_seed("mutation"));
    {
        // the stream is derived from the proptest runner seeded for this property (determinism rule)
        let mut runner = vcore::pt::runner(1, ctx.rng_seed("mutation"), 0);
        rng = Src(vcore::pt::draw(&mut runner, &proptest::prelude::any::<u64>()) ^ rng.0);
    }
    let mut done = 0usize;
    while done < random_cases {
        let n = (random_cases - done).min(20_000);
        let mut batch: Vec<Case> = Vec::with_capacity(n);
        for _ in 0..n {
            if rng.below(50) == 0 {
                // purely random bytes
                let d = all_decoders[rng.below(all_decoders.len() as u64) as usize];
                let len = rng.below(96) as usize;
                let mut bytes: Vec<u8> = (0..len).map(|_| rng.next() as u8).collect();
                if d == Decoder::RtpsMessage && bytes.len() >= 4 && rng.coin() {
                    bytes[..4].copy_from_slice(b"RTPS");
                }
                batch.push(Case { decoder: d, bytes, derived: false, classes: vec!["random-bytes"] });
                continue;
            }
            let mut pick = rng.below(100) as usize;
            let mut fam = 0;
            while pick >= FAMILY_SHARE[fam] {
                pick -= FAMILY_SHARE[fam];
                fam += 1;
            }
            let fs = &family_seeds[fam];
            let seed = &pool.seeds[fs[rng.below(fs.len() as u64) as usize]];
            let donors = &by_decoder[&seed.decoder];
            let donor = &pool.seeds[donors[rng.below(donors.len() as u64) as usize]].bytes;
            let (bytes, classes) = mutate::mutate(&seed.bytes, mutate::shape_of(seed.decoder), &mut rng, donor);
            // one in twelve: feed the mutated input to a different decoder of the same wire shape
            let decoder = if rng.below(12) == 0 {
                let same_shape: Vec<Decoder> = all_decoders.iter().copied().filter(|d| mutate::shape_of(*d) == mutate::shape_of(seed.decoder)).collect();
                same_shape[rng.below(same_shape.len() as u64) as usize]
            } else {
                seed.decoder
            };
            batch.push(Case { decoder, bytes, derived: true, classes });
        }
        done += n;
        run_batch(&mut report, &known, &mut findings, batch, "random mutation");
    }
    let t_phase2 = ctx.t0.elapsed().as_secs_f64();

    // phase 3: libFuzzer
    let fz = run_fuzz(ctx, &mut report, &known, &mut findings);
    report.stats.extra.insert("fuzz_ran".into(), json!(fz.ran));
    if !fz.notes.is_empty() {
        report.stats.extra.insert("fuzz_notes".into(), json!(fz.notes));
    }

    let t_phase3 = ctx.t0.elapsed().as_secs_f64();
    // minimise and report every distinct unknown signature (slow observations get a small budget: a hanging
    // candidate costs 2 s of CPU, an allocation-heavy one up to a few hundred ms)
    let budget = ctx.pick(120usize, 400);
    for (sig, (d, bytes, what, origin)) in &findings.first {
        let budget = if sig.starts_with("C07:hang") {
            8
        } else if sig.starts_with("C07:alloc:peak") {
            budget / 4
        } else {
            budget
        };
        let min = if bytes.len() > 2 { minimise(*d, bytes, sig, budget) } else { bytes.clone() };
        let obs = observe_one(*d, &min);
        let (sig2, what2) = judge(*d, min.len(), &obs).unwrap_or((sig.clone(), what.clone()));
        let (final_bytes, final_what) = if &sig2 == sig { (min, what2) } else { (bytes.clone(), what.clone()) };
        report.failures.push(Failure {
            signature: sig.clone(),
            what: final_what,
            case: case_json(*d, &final_bytes, origin),
            shrunk_from: Some(bytes.len() as u64),
            shrunk_to: Some(final_bytes.len() as u64),
        });
    }
    report.stats.extra.insert(
        "huge_length_draws_replaced_because_known".into(),
        json!(mutate::AVOIDED.load(std::sync::atomic::Ordering::Relaxed)),
    );
    let t_end = ctx.t0.elapsed().as_secs_f64();
    report.stats.extra.insert(
        "phase_wall_s".into(),
        json!({"valid+seeds": t_phase0, "sweep": t_phase1 - t_phase0, "random": t_phase2 - t_phase1, "libfuzzer": t_phase3 - t_phase2, "minimise": t_end - t_phase3}),
    );
    vcore::finish(ctx, meta(ctx.pick(50_000, 800_000)), report);
}

fn run_batch(report: &mut Report, known: &Known, findings: &mut Findings, batch: Vec<Case>, origin: &str) {
    if batch.is_empty() {
        return;
    }
    let inputs: Vec<(Decoder, Vec<u8>)> = batch.iter().map(|c| (c.decoder, c.bytes.clone())).collect();
    let obs = observe_all(&inputs);
    record(report, known, findings, &batch, &obs, origin);
}

/// `disc C07 quick --palette-selftest`: which palette type × encoding pairs serialize and decode back
fn palette_selftest() -> ! {
    use dust_dds::verif_hooks::{self, VerifEncoding};
    guard::install_hook();
    let mut s = Src(7);
    let mut bad = 0;
    for (i, e) in palette::palette().iter().enumerate() {
        let mut line = format!("{i:2} {:20}", e.name);
        for enc in [VerifEncoding::Xcdr1Le, VerifEncoding::Xcdr1Be, VerifEncoding::Xcdr2Le, VerifEncoding::Xcdr2Be] {
            let mut okc = 0;
            let mut status = String::new();
            for _ in 0..20 {
                let v = palette::fill(e.ty, &mut s);
                match std::panic::catch_unwind(std::panic::AssertUnwindSafe(|| verif_hooks::serialize(&v, enc))) {
                    Ok(Ok(bytes)) => match std::panic::catch_unwind(|| verif_hooks::deserialize(e.ty, &bytes).map(|d| d == v)) {
                        Ok(Ok(true)) => okc += 1,
                        Ok(Ok(false)) => status = "decoded-different".into(),
                        Ok(Err(err)) => status = format!("decode-err {err:?}"),
                        Err(_) => status = format!("decode-panic {:?}", guard::take_last_panic()),
                    },
                    Ok(Err(err)) => status = format!("ser-err {err:?}"),
                    Err(_) => status = format!("ser-panic {:?}", guard::take_last_panic()),
                }
            }
            if okc < 20 {
                bad += 1;
            }
            line.push_str(&format!(" | {okc:2}/20 {status}"));
        }
        println!("{line}");
    }
    for s in pool::repository_test_vectors() {
        let ok = std::panic::catch_unwind(|| decoders::decode(s.decoder, &s.bytes));
        println!("repository vector for {}: {} bytes → {:?}", s.decoder.name(), s.bytes.len(), ok);
    }
    println!("pairs with problems: {bad}");
    std::process::exit(0);
}
