//! Structure-aware mutations of valid encodings for C07. The structure knowledge (submessage walker, parameter
//! walker, "this aligned word looks like a length") comes from the wire formats (DDSI-RTPS 2.5 §9.4, XTypes 1.3
//! §7.4), not from dust-dds.

use crate::shared::{decoders::Decoder, palette::Src};
use std::sync::atomic::{AtomicBool, AtomicU64, Ordering};

#[derive(Clone, Copy, PartialEq, Eq, Debug)]
pub enum Shape {
    Rtps,
    /// encapsulation header + parameter list
    PList,
    /// encapsulation header + XCDR1/2 stream
    Xcdr,
}

pub fn shape_of(d: Decoder) -> Shape {
    match d {
        Decoder::RtpsMessage => Shape::Rtps,
        Decoder::Spdp | Decoder::SedpPub | Decoder::SedpSub | Decoder::Topic => Shape::PList,
        _ => Shape::Xcdr,
    }
}

pub const U32_SPECIALS: [u32; 12] = [0, 1, 2, 3, 4, 0xff, 0x100, 0xffff, 0x10000, 0x7fff_ffff, 0x8000_0000, 0xffff_ffff];
pub const U16_SPECIALS: [u16; 9] = [0, 1, 2, 3, 4, 0xff, 0x7fff, 0x8000, 0xffff];

fn rd_u32(b: &[u8], off: usize, le: bool) -> u32 {
    let a = [b[off], b[off + 1], b[off + 2], b[off + 3]];
    if le { u32::from_le_bytes(a) } else { u32::from_be_bytes(a) }
}
fn wr_u32(b: &mut [u8], off: usize, v: u32, le: bool) {
    let a = if le { v.to_le_bytes() } else { v.to_be_bytes() };
    b[off..off + 4].copy_from_slice(&a);
}
fn rd_u16(b: &[u8], off: usize, le: bool) -> u16 {
    let a = [b[off], b[off + 1]];
    if le { u16::from_le_bytes(a) } else { u16::from_be_bytes(a) }
}
fn wr_u16(b: &mut [u8], off: usize, v: u16, le: bool) {
    let a = if le { v.to_le_bytes() } else { v.to_be_bytes() };
    b[off..off + 2].copy_from_slice(&a);
}

/// little-endian? (per the encapsulation identifier's low bit for PList/Xcdr; per submessage for RTPS)
fn payload_le(b: &[u8]) -> bool {
    b.len() < 2 || b[1] & 1 == 1
}

#[derive(Clone, Copy, Debug)]
pub struct Sub {
    pub off: usize,
    pub id: u8,
    pub flags: u8,
    pub len: usize,
    pub body: usize,
    pub end: usize,
}

pub fn walk_rtps(b: &[u8]) -> Vec<Sub> {
    let mut v = vec![];
    let mut p = 20;
    while p + 4 <= b.len() {
        let id = b[p];
        let flags = b[p + 1];
        let le = flags & 1 == 1;
        let len = rd_u16(b, p + 2, le) as usize;
        let body = p + 4;
        let end = if len == 0 && (id == 0x15 || id == 0x16) { b.len() } else { (body + len).min(b.len()) };
        v.push(Sub { off: p, id, flags, len, body, end });
        if end <= p {
            break;
        }
        p = end.max(body);
        if len == 0 && !(id == 0x15 || id == 0x16) {
            // zero-length non-DATA submessage: next header follows immediately
            p = body;
        }
    }
    v
}

/// offsets of (pid, length) headers of a parameter list starting at `start`
pub fn walk_params(b: &[u8], start: usize, end: usize, le: bool) -> Vec<(usize, u16, usize)> {
    let mut v = vec![];
    let mut p = start;
    while p + 4 <= end.min(b.len()) {
        let pid = rd_u16(b, p, le);
        let len = rd_u16(b, p + 2, le) as usize;
        v.push((p, pid, len));
        if pid == 1 {
            break;
        }
        p += 4 + len;
    }
    v
}

/// aligned words (relative to `base`) whose value could be a length of something that follows
pub fn likely_length_words(b: &[u8], base: usize, le: bool) -> Vec<usize> {
    let mut v = vec![];
    let mut off = base;
    while off + 4 <= b.len() {
        let val = rd_u32(b, off, le) as usize;
        let remaining = b.len() - off - 4;
        if val >= 1 && val <= remaining + 4 {
            v.push(off);
        }
        off += 4;
    }
    v
}

/// Set when the unchecked-sequence-length findings (`C07:alloc:*`) are listed as known: 4 of 5 huge length values
/// are then replaced by small boundary values, because every one of them aborts a forked child with the same known
/// signature (milliseconds each) without exploring anything new. The replaced draws are counted.
pub static AVOID_HUGE_LENGTHS: AtomicBool = AtomicBool::new(false);
pub static AVOIDED: AtomicU64 = AtomicU64::new(0);

fn length_special(orig: u32, remaining: u32, s: &mut Src) -> u32 {
    let v = length_special_raw(orig, remaining, s);
    if v >= 0x0010_0000 && AVOID_HUGE_LENGTHS.load(Ordering::Relaxed) && s.below(5) != 0 {
        AVOIDED.fetch_add(1, Ordering::Relaxed);
        return [0, 1, orig.wrapping_sub(1), orig.wrapping_add(1), remaining, remaining.wrapping_add(1)][s.below(6) as usize];
    }
    v
}

fn length_special_raw(orig: u32, remaining: u32, s: &mut Src) -> u32 {
    match s.below(16) {
        0 => 0,
        1 => 1,
        2 => orig.wrapping_sub(1),
        3 => orig.wrapping_add(1),
        4 => 0x7fff_ffff,
        5 => 0xffff_ffff,
        6 => 0x8000_0000,
        7 => remaining,
        8 => remaining.wrapping_add(1),
        9 => orig.wrapping_mul(2),
        10 => 0x0100_0000,
        11 => 0x0002_0000,
        12 => 0x4000_0000,
        13 => orig.wrapping_add(4),
        14 => 0x2000_0000,
        _ => s.next() as u32,
    }
}

/// One mutation step; returns the class label of what was done.
pub fn step(b: &mut Vec<u8>, shape: Shape, s: &mut Src, donor: &[u8]) -> &'static str {
    if b.is_empty() {
        b.extend((0..1 + s.below(64)).map(|_| s.next() as u8));
        return "random-bytes";
    }
    let base = match shape {
        Shape::Rtps => 20usize.min(b.len()),
        _ => 4usize.min(b.len()),
    };
    let le = match shape {
        Shape::Rtps => true,
        _ => payload_le(b),
    };
    let choice = s.below(100);
    match choice {
        // --- length-like word → boundary value
        0..=34 => {
            let words = likely_length_words(b, base, le);
            if words.is_empty() {
                return step_generic(b, s);
            }
            let off = words[s.below(words.len() as u64) as usize];
            let orig = rd_u32(b, off, le);
            let remaining = (b.len() - off - 4) as u32;
            wr_u32(b, off, length_special(orig, remaining, s), le);
            "length-word"
        }
        // --- any aligned word → special
        35..=42 => {
            let nwords = (b.len() - base) / 4;
            if nwords == 0 {
                return step_generic(b, s);
            }
            let off = base + 4 * s.below(nwords as u64) as usize;
            wr_u32(b, off, U32_SPECIALS[s.below(U32_SPECIALS.len() as u64) as usize], le);
            "word-special"
        }
        // --- truncation
        43..=52 => {
            let at = s.below(b.len() as u64) as usize;
            b.truncate(at);
            "truncate"
        }
        // --- shape specific
        53..=77 => match shape {
            Shape::Rtps => step_rtps(b, s),
            Shape::PList => step_plist(b, s, le),
            Shape::Xcdr => step_xcdr(b, s, le),
        },
        // --- encapsulation / header edits
        78..=82 => match shape {
            Shape::Rtps => {
                let off = s.below(20u64.min(b.len() as u64)) as usize;
                b[off] = s.next() as u8;
                "rtps-header-byte"
            }
            _ => {
                let ids: [[u8; 2]; 12] = [[0, 0], [0, 1], [0, 2], [0, 3], [0, 6], [0, 7], [0, 8], [0, 9], [0, 10], [0, 11], [0xff, 0xff], [1, 0]];
                let id = ids[s.below(12) as usize];
                if b.len() >= 2 {
                    b[0] = id[0];
                    b[1] = id[1];
                }
                if b.len() >= 4 && s.below(4) == 0 {
                    b[3] = s.next() as u8; // options (padding count)
                }
                "encapsulation-id"
            }
        },
        // --- crossover with another valid encoding of the same decoder
        83..=86 => {
            if donor.len() > base {
                let cut = base + s.below((b.len() - base + 1) as u64) as usize;
                let from = base + s.below((donor.len() - base) as u64) as usize;
                b.truncate(cut);
                b.extend_from_slice(&donor[from..]);
                "crossover"
            } else {
                step_generic(b, s)
            }
        }
        // --- keep a valid prefix, randomise the tail
        87..=90 => {
            let keep = base + s.below((b.len() - base + 1) as u64) as usize;
            for x in b[keep..].iter_mut() {
                *x = s.next() as u8;
            }
            "random-tail"
        }
        _ => step_generic(b, s),
    }
}

fn step_generic(b: &mut Vec<u8>, s: &mut Src) -> &'static str {
    match s.below(6) {
        0 => {
            let bit = s.below(b.len() as u64 * 8) as usize;
            b[bit / 8] ^= 1 << (bit % 8);
            "bit-flip"
        }
        1 => {
            let off = s.below(b.len() as u64) as usize;
            b[off] = [0u8, 1, 0x7f, 0x80, 0xff, s.next() as u8][s.below(6) as usize];
            "byte-set"
        }
        2 => {
            if b.len() >= 2 {
                let off = 2 * s.below(b.len() as u64 / 2) as usize;
                let v = U16_SPECIALS[s.below(U16_SPECIALS.len() as u64) as usize];
                wr_u16(b, off, v, s.coin());
            }
            "u16-special"
        }
        3 => {
            // delete an aligned range
            let words = b.len() / 4;
            if words >= 2 {
                let a = s.below(words as u64) as usize;
                let n = 1 + s.below((words - a) as u64).min(4) as usize;
                b.drain(4 * a..(4 * (a + n)).min(b.len()));
            }
            "delete-range"
        }
        4 => {
            // duplicate an aligned range in place
            let words = b.len() / 4;
            if words >= 1 {
                let a = s.below(words as u64) as usize;
                let n = 1 + s.below((words - a) as u64).min(8) as usize;
                let chunk = b[4 * a..(4 * (a + n)).min(b.len())].to_vec();
                let at = 4 * a;
                b.splice(at..at, chunk);
            }
            "duplicate-range"
        }
        _ => {
            let n = 1 + s.below(16) as usize;
            let at = s.below(b.len() as u64 + 1) as usize;
            let chunk: Vec<u8> = (0..n).map(|_| if s.coin() { 0 } else { s.next() as u8 }).collect();
            b.splice(at..at, chunk);
            "insert-bytes"
        }
    }
}

fn step_rtps(b: &mut Vec<u8>, s: &mut Src) -> &'static str {
    let subs = walk_rtps(b);
    if subs.is_empty() {
        return step_generic(b, s);
    }
    let sub = subs[s.below(subs.len() as u64) as usize];
    let le = sub.flags & 1 == 1;
    let body_len = sub.end.saturating_sub(sub.body);
    let set32 = |b: &mut Vec<u8>, rel: usize, v: u32| {
        if sub.body + rel + 4 <= b.len() {
            wr_u32(b, sub.body + rel, v, le);
            true
        } else {
            false
        }
    };
    let set16 = |b: &mut Vec<u8>, rel: usize, v: u16| {
        if sub.body + rel + 2 <= b.len() {
            wr_u16(b, sub.body + rel, v, le);
            true
        } else {
            false
        }
    };
    let num_bits_values: [u32; 14] = [0, 1, 31, 32, 33, 255, 256, 257, 288, 1024, 0xffff, 0x7fff_ffff, 0x8000_0000, 0xffff_ffff];
    match s.below(10) {
        // octetsToNextHeader
        0 | 1 => {
            let l = sub.len as u16;
            let v = [0u16, 1, 2, 3, 4, l.wrapping_sub(1), l.wrapping_add(1), l.wrapping_sub(4), l.wrapping_add(4), 0x7fff, 0xffff, s.next() as u16][s.below(12) as usize];
            wr_u16(b, sub.off + 2, v, le);
            "rtps-submessage-length"
        }
        // flags
        2 => {
            b[sub.off + 1] ^= 1 << s.below(8);
            "rtps-flags"
        }
        // submessage kind
        3 => {
            const KINDS: [u8; 16] = [0x01, 0x06, 0x07, 0x08, 0x09, 0x0c, 0x0d, 0x0e, 0x0f, 0x12, 0x13, 0x15, 0x16, 0x00, 0x80, 0xff];
            b[sub.off] = KINDS[s.below(16) as usize];
            "rtps-kind"
        }
        // bitmap sets: numBits / base
        4 | 5 => {
            let nb = num_bits_values[s.below(14) as usize];
            let done = match sub.id {
                0x06 => set32(b, 16, nb),
                0x08 => set32(b, 24, nb),
                0x12 => {
                    if s.below(3) == 0 {
                        set32(b, 16, [0u32, 1, 0xffff_ff00, 0xffff_ffff][s.below(4) as usize])
                    } else {
                        set32(b, 20, nb)
                    }
                }
                _ => false,
            };
            if done { "rtps-numbits" } else { step_generic(b, s) }
        }
        // DATA / DATA_FRAG fixed fields
        6 | 7 => match sub.id {
            0x15 | 0x16 => {
                let bl = body_len as u16;
                match s.below(if sub.id == 0x16 { 6 } else { 2 }) {
                    0 | 1 => {
                        let v = [0u16, 1, 3, 4, 12, 15, 16, 17, 20, 28, 29, bl, bl.wrapping_add(1), bl.wrapping_sub(4), 0x7fff, 0xffff][s.below(16) as usize];
                        set16(b, 2, v);
                        "rtps-octets-to-inline-qos"
                    }
                    2 => {
                        set32(b, 24, [0u32, 1, 0xffff_ffff, 0x7fff_ffff][s.below(4) as usize]);
                        "rtps-frag-starting-num"
                    }
                    3 => {
                        set16(b, 28, [0u16, 1, 0xffff][s.below(3) as usize]);
                        "rtps-frags-in-submessage"
                    }
                    4 => {
                        set16(b, 30, [0u16, 1, 7, 0xffff][s.below(4) as usize]);
                        "rtps-fragment-size"
                    }
                    _ => {
                        set32(b, 32, [0u32, 1, 0xffff_ffff, 0x7fff_ffff][s.below(4) as usize]);
                        "rtps-data-size"
                    }
                }
            }
            0x0f => {
                set32(b, 0, [0u32, 1, 2, 0xffff, 0x7fff_ffff, 0xffff_ffff][s.below(6) as usize]);
                "rtps-num-locators"
            }
            _ => step_generic(b, s),
        },
        // inline QoS parameter lengths
        8 => {
            if (sub.id == 0x15 || sub.id == 0x16) && sub.flags & 2 != 0 && sub.body + 4 <= b.len() {
                let oti = rd_u16(b, sub.body + 2, le) as usize + 4;
                let params = walk_params(b, sub.body + oti, sub.end, le);
                if let Some(&(off, _pid, len)) = params.get(s.below(params.len().max(1) as u64) as usize) {
                    let l = len as u16;
                    let v = [0u16, 1, 2, 3, 4, l.wrapping_sub(4), l.wrapping_add(4), l.wrapping_add(1), 0x7fff, 0x8000, 0xfffc, 0xffff][s.below(12) as usize];
                    if s.below(4) == 0 {
                        wr_u16(b, off, [0u16, 1, 0x70, 0x71, 0x8000, 0xffff][s.below(6) as usize], le);
                    } else {
                        wr_u16(b, off + 2, v, le);
                    }
                    return "rtps-inline-qos-param";
                }
            }
            step_generic(b, s)
        }
        // duplicate / drop a whole submessage
        _ => {
            if s.coin() {
                let chunk = b[sub.off..sub.end].to_vec();
                b.splice(sub.off..sub.off, chunk);
                "rtps-duplicate-submessage"
            } else {
                b.drain(sub.off..sub.end);
                "rtps-drop-submessage"
            }
        }
    }
}

fn step_plist(b: &mut Vec<u8>, s: &mut Src, le: bool) -> &'static str {
    let params = walk_params(b, 4, b.len(), le);
    if params.is_empty() {
        return step_generic(b, s);
    }
    let (off, _pid, len) = params[s.below(params.len() as u64) as usize];
    match s.below(8) {
        0 | 1 | 2 => {
            let l = len as u16;
            let v = [0u16, 1, 2, 3, 4, 8, l.wrapping_sub(4), l.wrapping_add(4), l.wrapping_sub(1), l.wrapping_add(1), 0x7fff, 0x8000, 0xfffc, 0xffff][s.below(14) as usize];
            wr_u16(b, off + 2, v, le);
            "plist-param-length"
        }
        3 => {
            // retype: give the value to another known pid
            const PIDS: [u16; 24] = [
                0x0002, 0x0004, 0x0005, 0x0006, 0x0007, 0x000f, 0x0015, 0x0016, 0x001a, 0x001b, 0x001d, 0x001f, 0x0021, 0x0023, 0x0025, 0x0029, 0x002b, 0x002c,
                0x002f, 0x0040, 0x0041, 0x0050, 0x005a, 0x0075,
            ];
            wr_u16(b, off, PIDS[s.below(24) as usize], le);
            "plist-retype-param"
        }
        4 => {
            wr_u16(b, off, [0u16, 1, 0x4014, 0x3fff, 0x8000, 0xffff][s.below(6) as usize], le);
            "plist-pid-special"
        }
        5 | 6 => {
            // first word of the value (string / sequence length for most parameters)
            if len >= 4 && off + 8 <= b.len() {
                let orig = rd_u32(b, off + 4, le);
                wr_u32(b, off + 4, length_special(orig, len as u32 - 4, s), le);
                "plist-value-length"
            } else {
                step_generic(b, s)
            }
        }
        _ => {
            let end = (off + 4 + len).min(b.len());
            if s.coin() {
                let chunk = b[off..end].to_vec();
                b.splice(off..off, chunk);
                "plist-duplicate-param"
            } else {
                b.drain(off..end);
                "plist-drop-param"
            }
        }
    }
}

fn step_xcdr(b: &mut Vec<u8>, s: &mut Src, le: bool) -> &'static str {
    let nwords = b.len().saturating_sub(4) / 4;
    if nwords == 0 {
        return step_generic(b, s);
    }
    let off = 4 + 4 * s.below(nwords as u64) as usize;
    match s.below(4) {
        0 | 1 => {
            // EMHEADER1 length code (bits 28..30) and must-understand flag (bit 31)
            let w = rd_u32(b, off, le);
            let lc = s.below(8) as u32;
            let m = if s.below(4) == 0 { 0x8000_0000 } else { w & 0x8000_0000 };
            wr_u32(b, off, (w & 0x0fff_ffff) | (lc << 28) | m, le);
            "xcdr-emheader-lc"
        }
        2 => {
            // XCDR1 parameter header: pid / length halves
            if s.coin() {
                wr_u16(b, off, [0u16, 1, 0x3f01, 0x3f02, 0x3f03, 0x3f04, 0x4001, 0x8001, 0xffff][s.below(9) as usize], le);
            } else {
                wr_u16(b, off + 2, U16_SPECIALS[s.below(U16_SPECIALS.len() as u64) as usize], le);
            }
            "xcdr-pl-header"
        }
        _ => {
            // moderate lengths: large enough to matter for allocation, small enough to pass a naive cap
            // (the multi-million values cost up to 2 s of CPU each on element types that can be empty: rare on purpose)
            let v = if s.below(24) == 0 { [0x0010_0000u32, 0x0040_0000, 0x00ff_ffff][s.below(3) as usize] } else { [0x0000_4000u32, 0x0001_0000, 0x0002_0000, 0x0004_0000][s.below(4) as usize] };
            wr_u32(b, off, v, le);
            "xcdr-moderate-length"
        }
    }
}

/// A mutated copy of `seed`: 1..=3 steps. Returns the bytes and the classes of the steps applied.
pub fn mutate(seed: &[u8], shape: Shape, s: &mut Src, donor: &[u8]) -> (Vec<u8>, Vec<&'static str>) {
    let mut b = seed.to_vec();
    let steps = match s.below(10) {
        0..=5 => 1,
        6..=8 => 2,
        _ => 3,
    };
    let mut classes = vec![];
    for _ in 0..steps {
        classes.push(step(&mut b, shape, s, donor));
    }
    (b, classes)
}

/// Systematic sweep over one seed: truncation at every offset, and every length-like word set to each of the
/// boundary values {0, 1, len-1, len+1, 0x7fffffff, 0xffffffff}.
pub fn sweep(seed: &[u8], shape: Shape) -> Vec<(Vec<u8>, &'static str)> {
    let mut out = vec![];
    for at in 0..seed.len() {
        out.push((seed[..at].to_vec(), "sweep-truncate"));
    }
    let base = match shape {
        Shape::Rtps => 20usize.min(seed.len()),
        _ => 4usize.min(seed.len()),
    };
    let le = match shape {
        Shape::Rtps => true,
        _ => payload_le(seed),
    };
    for off in likely_length_words(seed, base, le) {
        let orig = rd_u32(seed, off, le);
        for v in [0u32, 1, orig.wrapping_sub(1), orig.wrapping_add(1), 0x7fff_ffff, 0xffff_ffff] {
            if v != orig {
                let mut b = seed.to_vec();
                wr_u32(&mut b, off, v, le);
                out.push((b, "sweep-length-word"));
            }
        }
    }
    if shape == Shape::Rtps {
        // 16-bit fields of RTPS (submessage length, octetsToInlineQos, fragment fields) at every even offset
        for sub in walk_rtps(seed) {
            let le = sub.flags & 1 == 1;
            for rel in [2usize, 6, 32, 34] {
                let off = sub.off + rel;
                if off + 2 <= seed.len() && off < sub.end.max(sub.off + 4) {
                    let orig = rd_u16(seed, off, le);
                    for v in [0u16, 1, orig.wrapping_sub(1), orig.wrapping_add(1), 0x7fff, 0xffff] {
                        if v != orig {
                            let mut b = seed.to_vec();
                            wr_u16(&mut b, off, v, le);
                            out.push((b, "sweep-rtps-u16"));
                        }
                    }
                }
            }
        }
    }
    out
}
