fn main() {
    eprintln!("engine disc: not built yet");
    std::process::exit(2);
}
