//! Engine `disc`: C13 (discovery data round-trip) and C07 (decoders are total).
//! `disc <C07|C13> <quick|thorough> [--replay <file>]`, plus maintenance sub-commands
//! `disc C07 quick --write-seeds` (regenerates /verif/fuzz/seeds) and `--palette-selftest`.

mod c07;
mod c13;
mod mutate;
mod plist;
mod pool;
#[path = "shared/mod.rs"]
mod shared;

#[global_allocator]
static A: vcore::alloc::Counting = vcore::alloc::Counting;

fn main() {
    // a refused allocation makes std print a symbolised backtrace (~1 s) when RUST_BACKTRACE is set: switch it off
    // before anything can cache the setting (single-threaded here)
    unsafe { std::env::set_var("RUST_BACKTRACE", "0") };
    let ctx = vcore::Ctx::from_args();
    match ctx.id.as_str() {
        "C13" => c13::run(&ctx),
        "C07" => c07::run(&ctx),
        other => {
            eprintln!("disc: unknown property id {other}");
            std::process::exit(2);
        }
    }
}
