//! Little PL_CDR parameter-list splicer, written from DDSI-RTPS 2.5 §9.4.2.11 (not from dust-dds):
//! 4-byte encapsulation header, then (pid:u16, length:u16, value padded to 4)* and the sentinel (pid 1, length 0).

#[derive(Clone, Debug, PartialEq, Eq)]
pub struct Param {
    pub pid: u16,
    pub value: Vec<u8>,
}

#[derive(Clone, Debug, PartialEq, Eq)]
pub struct PList {
    pub header: [u8; 4],
    pub params: Vec<Param>,
    /// bytes after the sentinel (normally empty)
    pub trailer: Vec<u8>,
}

pub const PID_PAD: u16 = 0x0000;
pub const PID_SENTINEL: u16 = 0x0001;

impl PList {
    /// Parses a little-endian parameter list (PL_CDR_LE, what dust-dds emits). None when malformed.
    pub fn parse_le(bytes: &[u8]) -> Option<PList> {
        if bytes.len() < 4 {
            return None;
        }
        let header = [bytes[0], bytes[1], bytes[2], bytes[3]];
        if header[0] != 0 || header[1] != 3 {
            return None;
        }
        let mut p = 4;
        let mut params = vec![];
        loop {
            if p + 4 > bytes.len() {
                return None; // no sentinel
            }
            let pid = u16::from_le_bytes([bytes[p], bytes[p + 1]]);
            let len = u16::from_le_bytes([bytes[p + 2], bytes[p + 3]]) as usize;
            p += 4;
            if pid == PID_SENTINEL {
                break;
            }
            if p + len > bytes.len() {
                return None;
            }
            params.push(Param { pid, value: bytes[p..p + len].to_vec() });
            p += len;
        }
        Some(PList { header, params, trailer: bytes[p..].to_vec() })
    }

    pub fn to_bytes(&self) -> Vec<u8> {
        let mut out = Vec::with_capacity(8 + self.params.iter().map(|p| p.value.len() + 4).sum::<usize>());
        out.extend_from_slice(&self.header);
        for p in &self.params {
            debug_assert!(p.value.len() % 4 == 0 && p.value.len() <= 0xfffc);
            out.extend_from_slice(&p.pid.to_le_bytes());
            out.extend_from_slice(&(p.value.len() as u16).to_le_bytes());
            out.extend_from_slice(&p.value);
        }
        out.extend_from_slice(&PID_SENTINEL.to_le_bytes());
        out.extend_from_slice(&0u16.to_le_bytes());
        out.extend_from_slice(&self.trailer);
        out
    }
}
