//! Code shared between the `disc` engine and the libFuzzer targets in `/verif/fuzz` (which include this
//! directory with `#[path]`). Depends on `dust_dds` and `std` only.
pub mod decoders;
pub mod guard;
pub mod palette;
