//! Palette of pre-built `DynamicType`s covering every payload shape dust-dds supports (final / appendable /
//! mutable structures, unions, enums, strings, wide strings, sequences, arrays, optionals, keys, nesting),
//! built through the public `DynamicTypeBuilderFactory`, plus a deterministic value filler.
//!
//! This file is shared: `/verif/fuzz` includes it with `#[path]`, so it may depend on `dust_dds` and `std` only.
//! Shapes the (de)serializer answers with `todo!()` by design of the library (maps, bitsets, aliases, sequences
//! of sequences, CHAR16) are not "supported data types" and are left out on purpose.

use dust_dds::xtypes::{
    data_storage::DataStorage,
    dynamic_type::{
        DynamicData, DynamicDataFactory, DynamicType, DynamicTypeBuilderFactory, ExtensibilityKind,
        MemberDescriptor, TryConstructKind, TypeDescriptor, TypeKind,
    },
};
use std::sync::OnceLock;

pub struct Entry {
    pub name: &'static str,
    pub ty: DynamicType<'static>,
}

/// splitmix64 stream; the only randomness the filler uses (seeded from the proptest runner by callers)
pub struct Src(pub u64);

impl Src {
    pub fn next(&mut self) -> u64 {
        self.0 = self.0.wrapping_add(0x9E3779B97F4A7C15);
        let mut z = self.0;
        z = (z ^ (z >> 30)).wrapping_mul(0xBF58476D1CE4E5B9);
        z = (z ^ (z >> 27)).wrapping_mul(0x94D049BB133111EB);
        z ^ (z >> 31)
    }
    pub fn below(&mut self, n: u64) -> u64 {
        if n == 0 { 0 } else { self.next() % n }
    }
    pub fn coin(&mut self) -> bool {
        self.next() & 1 == 1
    }
}

fn prim(kind: TypeKind) -> DynamicType<'static> {
    DynamicTypeBuilderFactory::get_primitive_type(kind)
}

fn string_t(bound: u32) -> DynamicType<'static> {
    DynamicTypeBuilderFactory::create_string_type(bound).build()
}

fn wstring_t(bound: u32) -> DynamicType<'static> {
    DynamicTypeBuilderFactory::create_wstring_type(bound).build()
}

fn seq(elem: DynamicType<'static>, bound: u32) -> DynamicType<'static> {
    DynamicTypeBuilderFactory::create_sequence_type(elem, bound).build()
}

fn arr(elem: DynamicType<'static>, n: u32) -> DynamicType<'static> {
    DynamicTypeBuilderFactory::create_array_type(elem, vec![n].leak()).build()
}

fn descriptor(
    kind: TypeKind,
    name: &'static str,
    ext: ExtensibilityKind,
    disc: Option<DynamicType<'static>>,
) -> TypeDescriptor {
    TypeDescriptor {
        kind,
        name,
        base_type: None,
        discriminator_type: disc,
        bound: &[],
        element_type: None,
        key_element_type: None,
        extensibility_kind: ext,
        is_nested: false,
    }
}

#[derive(Clone, Copy)]
struct M {
    name: &'static str,
    id: u32,
    ty: DynamicType<'static>,
    optional: bool,
    key: bool,
}

fn m(name: &'static str, id: u32, ty: DynamicType<'static>) -> M {
    M { name, id, ty, optional: false, key: false }
}
fn opt(name: &'static str, id: u32, ty: DynamicType<'static>) -> M {
    M { name, id, ty, optional: true, key: false }
}
fn key(name: &'static str, id: u32, ty: DynamicType<'static>) -> M {
    M { name, id, ty, optional: false, key: true }
}

fn strukt(name: &'static str, ext: ExtensibilityKind, members: &[M]) -> DynamicType<'static> {
    let mut b = DynamicTypeBuilderFactory::create_type(descriptor(TypeKind::STRUCTURE, name, ext, None));
    for (index, mm) in members.iter().enumerate() {
        b.add_member(MemberDescriptor {
            name: mm.name,
            id: mm.id,
            r#type: mm.ty,
            default_value: None,
            index: index as u32,
            label: &[],
            try_construct_kind: TryConstructKind::Discard,
            is_key: mm.key,
            is_optional: mm.optional,
            is_must_understand: mm.key,
            is_shared: false,
            is_default_label: false,
            is_external: false,
        })
        .expect("add_member on a structure");
    }
    b.build()
}

/// enum with explicit literals (label = value); `holder` is INT8/INT16/INT32 like the derive macro produces
fn enum_t(name: &'static str, holder: TypeKind, literals: &[(&'static str, i32)]) -> DynamicType<'static> {
    let mut b = DynamicTypeBuilderFactory::create_type(descriptor(
        TypeKind::ENUM,
        name,
        ExtensibilityKind::Final,
        Some(prim(holder)),
    ));
    for (index, (lname, value)) in literals.iter().enumerate() {
        b.add_member(MemberDescriptor {
            name: lname,
            id: index as u32,
            r#type: prim(holder),
            default_value: None,
            index: index as u32,
            label: vec![*value].leak(),
            try_construct_kind: TryConstructKind::Discard,
            is_key: false,
            is_optional: false,
            is_must_understand: false,
            is_shared: false,
            is_default_label: false,
            is_external: false,
        })
        .expect("add_member on an enum");
    }
    b.build()
}

struct Case {
    name: &'static str,
    ty: DynamicType<'static>,
    labels: &'static [i32],
    default: bool,
}

fn case(name: &'static str, ty: DynamicType<'static>, labels: &'static [i32]) -> Case {
    Case { name, ty, labels, default: false }
}
fn default_case(name: &'static str, ty: DynamicType<'static>) -> Case {
    Case { name, ty, labels: &[], default: true }
}

/// union laid out like the derive macro does: member 0 = discriminator (id 0), case i has id/index i
fn union_t(
    name: &'static str,
    ext: ExtensibilityKind,
    disc: DynamicType<'static>,
    cases: Vec<Case>,
) -> DynamicType<'static> {
    let mut b = DynamicTypeBuilderFactory::create_type(descriptor(TypeKind::UNION, name, ext, Some(disc)));
    b.add_member(MemberDescriptor {
        name: "discriminator",
        id: 0,
        r#type: disc,
        default_value: None,
        index: 0,
        label: &[],
        try_construct_kind: TryConstructKind::Discard,
        is_key: false,
        is_optional: false,
        is_must_understand: true,
        is_shared: false,
        is_default_label: false,
        is_external: false,
    })
    .expect("add discriminator");
    for (i, c) in cases.iter().enumerate() {
        b.add_member(MemberDescriptor {
            name: c.name,
            id: i as u32 + 1,
            r#type: c.ty,
            default_value: None,
            index: i as u32 + 1,
            label: c.labels,
            try_construct_kind: TryConstructKind::Discard,
            is_key: false,
            is_optional: false,
            is_must_understand: false,
            is_shared: false,
            is_default_label: c.default,
            is_external: false,
        })
        .expect("add case");
    }
    b.build()
}

fn build() -> Vec<Entry> {
    use ExtensibilityKind::{Appendable, Final, Mutable};
    use TypeKind::*;
    let mut v: Vec<Entry> = Vec::new();
    let mut add = |name: &'static str, ty: DynamicType<'static>| v.push(Entry { name, ty });

    let str_u = string_t(0);
    let str_b8 = string_t(8);
    let wstr = wstring_t(0);

    // --- building blocks
    let final_inner = strukt("FinalInner", Final, &[m("a", 0, prim(UINT8)), m("b", 1, prim(INT64)), m("s", 2, str_u)]);
    let app_inner = strukt("AppInner", Appendable, &[m("a", 0, prim(INT16)), m("s", 1, str_u)]);
    let mut_inner = strukt("MutInner", Mutable, &[m("a", 3, prim(UINT32)), m("s", 7, str_u), m("c", 20, prim(UINT8))]);
    let empty_final = strukt("EmptyFinal", Final, &[]);
    let empty_app = strukt("EmptyApp", Appendable, &[]);
    let empty_mut = strukt("EmptyMut", Mutable, &[]);
    let e8 = enum_t("Enum8", INT8, &[("A", 0), ("B", 1), ("C", 5)]);
    let e16 = enum_t("Enum16", INT16, &[("A", 0), ("B", 300)]);
    let e32 = enum_t("Enum32", INT32, &[("A", 0), ("B", 1), ("C", 2), ("D", -7)]);
    let e_any = enum_t("EnumOpen", INT32, &[]);
    let u_final = union_t(
        "FinalUnion",
        Final,
        prim(INT32),
        vec![case("i", prim(INT32), &[1]), case("s", str_u, &[2, 3]), case("st", final_inner, &[4])],
    );
    let u_app = union_t(
        "AppUnion",
        Appendable,
        prim(INT16),
        vec![case("b", prim(BOOLEAN), &[0]), case("d", prim(FLOAT64), &[1]), default_case("o", prim(UINT8))],
    );
    let u_mut = union_t(
        "MutUnion",
        Mutable,
        prim(UINT8),
        vec![case("l", prim(INT64), &[1]), case("s", str_u, &[2]), case("e", e8, &[3])],
    );

    // --- primitives
    add(
        "FinalPrims",
        strukt(
            "FinalPrims",
            Final,
            &[
                m("bo", 0, prim(BOOLEAN)),
                m("by", 1, prim(BYTE)),
                m("i8", 2, prim(INT8)),
                m("u8", 3, prim(UINT8)),
                m("i16", 4, prim(INT16)),
                m("u16", 5, prim(UINT16)),
                m("i32", 6, prim(INT32)),
                m("u32", 7, prim(UINT32)),
                m("i64", 8, prim(INT64)),
                m("u64", 9, prim(UINT64)),
                m("f32", 10, prim(FLOAT32)),
                m("f64", 11, prim(FLOAT64)),
                m("c", 12, prim(CHAR8)),
            ],
        ),
    );
    add("AppPrims", strukt("AppPrims", Appendable, &[m("a", 0, prim(INT32)), m("b", 1, prim(UINT8)), m("c", 2, prim(INT64))]));
    add("MutPrims", strukt("MutPrims", Mutable, &[m("a", 1, prim(UINT8)), m("b", 5, prim(INT64)), m("c", 100, prim(UINT16)), m("d", 101, prim(FLOAT64))]));
    add("FinalF128", strukt("FinalF128", Final, &[m("a", 0, prim(UINT8)), m("q", 1, prim(FLOAT128))]));
    // --- strings
    add("FinalString", strukt("FinalString", Final, &[m("s", 0, str_u)]));
    add("AppStrings", strukt("AppStrings", Appendable, &[m("s", 0, str_u), m("b", 1, str_b8), m("n", 2, prim(INT32))]));
    add("MutString", strukt("MutString", Mutable, &[m("n", 0, prim(INT32)), m("s", 1, str_u)]));
    add("FinalWString", strukt("FinalWString", Final, &[m("n", 0, prim(UINT8)), m("w", 1, wstr)]));
    add("MutWString", strukt("MutWString", Mutable, &[m("w", 4, wstr), m("n", 9, prim(UINT16))]));
    // --- sequences of primitives
    add("FinalSeqU8", strukt("FinalSeqU8", Final, &[m("v", 0, seq(prim(UINT8), 0))]));
    add("FinalSeqByte", strukt("FinalSeqByte", Final, &[m("v", 0, seq(prim(BYTE), 0)), m("t", 1, prim(UINT8))]));
    add("FinalSeqI32", strukt("FinalSeqI32", Final, &[m("h", 0, prim(UINT8)), m("v", 1, seq(prim(INT32), 0))]));
    add("AppSeqI64", strukt("AppSeqI64", Appendable, &[m("h", 0, prim(UINT8)), m("v", 1, seq(prim(INT64), 0))]));
    add("MutSeqF64", strukt("MutSeqF64", Mutable, &[m("v", 2, seq(prim(FLOAT64), 0)), m("t", 3, prim(UINT8))]));
    add("FinalSeqMisc", strukt("FinalSeqMisc", Final, &[m("b", 0, seq(prim(BOOLEAN), 0)), m("c", 1, seq(prim(CHAR8), 0)), m("u", 2, seq(prim(UINT16), 4)), m("i", 3, seq(prim(INT8), 0)), m("f", 4, seq(prim(FLOAT32), 0)), m("q", 5, seq(prim(UINT64), 0))]));
    add("FinalSeqString", strukt("FinalSeqString", Final, &[m("v", 0, seq(str_u, 0))]));
    add("AppSeqString", strukt("AppSeqString", Appendable, &[m("n", 0, prim(INT16)), m("v", 1, seq(str_u, 0))]));
    add("MutSeqString", strukt("MutSeqString", Mutable, &[m("v", 10, seq(str_u, 0))]));
    add("FinalSeqWString", strukt("FinalSeqWString", Final, &[m("v", 0, seq(wstr, 0))]));
    // --- arrays
    add("FinalArrays", strukt("FinalArrays", Final, &[m("a", 0, arr(prim(UINT8), 4)), m("b", 1, arr(prim(INT32), 3)), m("c", 2, arr(prim(INT64), 2))]));
    add("AppArrayString", strukt("AppArrayString", Appendable, &[m("a", 0, arr(str_u, 2)), m("n", 1, prim(UINT8))]));
    add("MutArrayStruct", strukt("MutArrayStruct", Mutable, &[m("a", 1, arr(final_inner, 2)), m("e", 2, arr(e8, 3))]));
    add("FinalArrayStruct", strukt("FinalArrayStruct", Final, &[m("a", 0, arr(app_inner, 2)), m("m", 1, arr(mut_inner, 2))]));
    // --- enums
    add("Enum8", e8);
    add("Enum32", e32);
    add("FinalEnums", strukt("FinalEnums", Final, &[m("a", 0, e8), m("b", 1, e16), m("c", 2, e32), m("d", 3, e_any)]));
    add("MutEnums", strukt("MutEnums", Mutable, &[m("a", 0, e16), m("c", 6, e32)]));
    // --- unions
    add("FinalUnion", u_final);
    add("AppUnion", u_app);
    add("MutUnion", u_mut);
    add("FinalWithUnions", strukt("FinalWithUnions", Final, &[m("u", 0, u_final), m("v", 1, u_app), m("n", 2, prim(UINT8))]));
    add("MutWithUnions", strukt("MutWithUnions", Mutable, &[m("u", 0, u_mut), m("v", 1, u_final)]));
    // --- nesting
    add("FinalOuter", strukt("FinalOuter", Final, &[m("i", 0, final_inner), m("n", 1, prim(INT64)), m("j", 2, final_inner)]));
    add("AppOuter", strukt("AppOuter", Appendable, &[m("h", 0, prim(UINT8)), m("i", 1, app_inner), m("j", 2, final_inner)]));
    add("MutOuter", strukt("MutOuter", Mutable, &[m("i", 0, mut_inner), m("j", 1, final_inner), m("k", 2, app_inner)]));
    add("FinalOfAppMut", strukt("FinalOfAppMut", Final, &[m("a", 0, app_inner), m("b", 1, mut_inner), m("t", 2, prim(UINT8))]));
    let deep3 = strukt("Deep3", Appendable, &[m("m", 0, mut_inner), m("x", 1, prim(UINT16))]);
    let deep2 = strukt("Deep2", Mutable, &[m("d", 0, deep3), m("u", 1, u_final)]);
    let deep1 = strukt("Deep1", Final, &[m("d", 0, deep2), m("s", 1, seq(deep3, 0))]);
    add("Deep", strukt("Deep", Appendable, &[m("d", 0, deep1), m("t", 1, str_u)]));
    // --- sequences of constructed types
    add("FinalSeqStruct", strukt("FinalSeqStruct", Final, &[m("v", 0, seq(final_inner, 0))]));
    add("AppSeqApp", strukt("AppSeqApp", Appendable, &[m("v", 0, seq(app_inner, 0)), m("t", 1, prim(UINT8))]));
    add("MutSeqMut", strukt("MutSeqMut", Mutable, &[m("v", 0, seq(mut_inner, 0)), m("t", 1, prim(UINT8))]));
    add("FinalSeqEnumUnion", strukt("FinalSeqEnumUnion", Final, &[m("e", 0, seq(e32, 0)), m("u", 1, seq(u_final, 0))]));
    add("FinalSeqEmpty", strukt("FinalSeqEmpty", Final, &[m("a", 0, seq(empty_final, 0)), m("b", 1, seq(empty_app, 0)), m("c", 2, seq(empty_mut, 0))]));
    add("BoundedSeqStruct", strukt("BoundedSeqStruct", Appendable, &[m("v", 0, seq(app_inner, 3))]));
    // --- optionals
    add("FinalOptional", strukt("FinalOptional", Final, &[m("h", 0, prim(UINT8)), opt("a", 1, prim(INT32)), opt("s", 2, str_u), opt("i", 3, final_inner), m("t", 4, prim(UINT16))]));
    add("AppOptional", strukt("AppOptional", Appendable, &[opt("a", 0, prim(INT64)), opt("v", 1, seq(prim(INT32), 0)), m("t", 2, prim(UINT8))]));
    add("MutOptional", strukt("MutOptional", Mutable, &[opt("a", 0, prim(INT64)), opt("s", 1, str_u), opt("i", 2, mut_inner), m("t", 3, prim(UINT8))]));
    // --- keys
    add("Keyed", strukt("Keyed", Final, &[key("id", 0, prim(INT32)), key("name", 1, str_u), m("x", 2, prim(FLOAT64))]));
    add("KeyedMut", strukt("KeyedMut", Mutable, &[key("id", 0, prim(UINT16)), m("x", 1, seq(prim(UINT8), 0)), key("k2", 2, e8)]));
    // --- empty
    add("EmptyFinal", empty_final);
    add("EmptyApp", empty_app);
    add("EmptyMut", empty_mut);
    v
}

pub fn palette() -> &'static [Entry] {
    static P: OnceLock<Vec<Entry>> = OnceLock::new();
    P.get_or_init(build)
}

pub fn by_name(name: &str) -> Option<(usize, &'static Entry)> {
    palette().iter().enumerate().find(|(_, e)| e.name == name)
}

// ------------------------------------------------------------------------------------------------
// value filler

const STRINGS: &[&str] = &["", "a", "ab", "abc", "hello world", "x\u{e9}y", "0123456789abcdef0123456789abcdef"];

fn string_for(bound: u32, s: &mut Src) -> String {
    let mut st = STRINGS[s.below(STRINGS.len() as u64) as usize].to_string();
    if bound != 0 && bound != u32::MAX {
        while st.len() > bound as usize {
            st.pop();
        }
    }
    st
}

fn int_for(s: &mut Src) -> u64 {
    match s.below(6) {
        0 => 0,
        1 => 1,
        2 => u64::MAX,
        3 => 0x7f7f_7f7f_7f7f_7f7f,
        4 => 0x8000_0000_8000_8080,
        _ => s.next(),
    }
}

fn bound_of(t: DynamicType<'static>) -> u32 {
    t.descriptor.bound.first().copied().unwrap_or(0)
}

fn seq_len(t: DynamicType<'static>, s: &mut Src) -> usize {
    match t.get_kind() {
        TypeKind::ARRAY => bound_of(t) as usize,
        _ => {
            let b = bound_of(t);
            let max = if b == 0 || b == u32::MAX { 3 } else { b.min(3) };
            s.below(max as u64 + 1) as usize
        }
    }
}

fn disc_storage(kind: TypeKind, v: i32) -> DataStorage {
    match kind {
        TypeKind::INT8 => DataStorage::Int8(v as i8),
        TypeKind::UINT8 | TypeKind::BYTE => DataStorage::UInt8(v as u8),
        TypeKind::INT16 => DataStorage::Int16(v as i16),
        TypeKind::UINT16 => DataStorage::UInt16(v as u16),
        TypeKind::UINT32 => DataStorage::UInt32(v as u32),
        _ => DataStorage::Int32(v),
    }
}

fn collection_for(t: DynamicType<'static>, s: &mut Src) -> DataStorage {
    let n = seq_len(t, s);
    let elem = t.descriptor.element_type.expect("collection has an element type");
    macro_rules! many {
        ($variant:ident, $f:expr) => {
            DataStorage::$variant((0..n).map(|_| $f).collect())
        };
    }
    match elem.get_kind() {
        TypeKind::BOOLEAN => many!(SequenceBoolean, s.coin()),
        TypeKind::BYTE | TypeKind::UINT8 => many!(SequenceUInt8, int_for(s) as u8),
        TypeKind::INT8 => many!(SequenceInt8, int_for(s) as i8),
        TypeKind::INT16 => many!(SequenceInt16, int_for(s) as i16),
        TypeKind::UINT16 => many!(SequenceUInt16, int_for(s) as u16),
        TypeKind::INT32 => many!(SequenceInt32, int_for(s) as i32),
        TypeKind::UINT32 => many!(SequenceUInt32, int_for(s) as u32),
        TypeKind::INT64 => many!(SequenceInt64, int_for(s) as i64),
        TypeKind::UINT64 => many!(SequenceUInt64, int_for(s)),
        TypeKind::FLOAT32 => many!(SequenceFloat32, (int_for(s) as i32) as f32 / 8.0),
        TypeKind::FLOAT64 => many!(SequenceFloat64, (int_for(s) as i64) as f64 / 16.0),
        TypeKind::FLOAT128 => many!(SequenceFloat128, int_for(s) as i128),
        TypeKind::CHAR8 => many!(SequenceChar8, (b'a' + s.below(26) as u8) as char),
        TypeKind::STRING8 | TypeKind::STRING16 => many!(SequenceString, string_for(bound_of(elem), s)),
        _ => many!(SequenceComplexValue, fill(elem, s)),
    }
}

fn value_for(t: DynamicType<'static>, s: &mut Src) -> DataStorage {
    match t.get_kind() {
        TypeKind::BOOLEAN => DataStorage::Boolean(s.coin()),
        TypeKind::BYTE | TypeKind::UINT8 => DataStorage::UInt8(int_for(s) as u8),
        TypeKind::INT8 => DataStorage::Int8(int_for(s) as i8),
        TypeKind::INT16 => DataStorage::Int16(int_for(s) as i16),
        TypeKind::UINT16 => DataStorage::UInt16(int_for(s) as u16),
        TypeKind::INT32 => DataStorage::Int32(int_for(s) as i32),
        TypeKind::UINT32 => DataStorage::UInt32(int_for(s) as u32),
        TypeKind::INT64 => DataStorage::Int64(int_for(s) as i64),
        TypeKind::UINT64 => DataStorage::UInt64(int_for(s)),
        TypeKind::FLOAT32 => DataStorage::Float32((int_for(s) as i32) as f32 / 8.0),
        TypeKind::FLOAT64 => DataStorage::Float64((int_for(s) as i64) as f64 / 16.0),
        TypeKind::FLOAT128 => DataStorage::Float128(int_for(s) as i128),
        TypeKind::CHAR8 => DataStorage::Char8((b'a' + s.below(26) as u8) as char),
        TypeKind::STRING8 | TypeKind::STRING16 => DataStorage::String(string_for(bound_of(t), s)),
        TypeKind::SEQUENCE | TypeKind::ARRAY => collection_for(t, s),
        _ => DataStorage::ComplexValue(fill(t, s)),
    }
}

/// A fully populated value of `ty` (optionals present or absent by coin flip).
pub fn fill(ty: DynamicType<'static>, s: &mut Src) -> DynamicData<'static> {
    let mut d = DynamicDataFactory::create_data(ty);
    match ty.get_kind() {
        TypeKind::ENUM => {
            let holder = ty.descriptor.discriminator_type.map(|t| t.get_kind()).unwrap_or(TypeKind::INT32);
            let n = ty.member_list.len() as u64;
            let v = if n == 0 {
                int_for(s) as i8 as i32
            } else {
                let l = &ty.member_list[s.below(n) as usize];
                l.descriptor.label.first().copied().unwrap_or(l.descriptor.index as i32)
            };
            d.set_value(0, disc_storage(holder, v));
        }
        TypeKind::UNION => {
            let disc_kind = ty.member_list[0].descriptor.r#type.get_kind();
            let ncases = ty.member_list.len() as u64 - 1;
            if ncases > 0 {
                let c = &ty.member_list[1 + s.below(ncases) as usize];
                let label = if c.descriptor.is_default_label || c.descriptor.label.is_empty() {
                    // a discriminator value no case lists
                    let mut candidate = 100;
                    while ty.member_list.iter().any(|mm| mm.descriptor.label.contains(&candidate)) {
                        candidate += 1;
                    }
                    candidate
                } else {
                    c.descriptor.label[s.below(c.descriptor.label.len() as u64) as usize]
                };
                d.set_value(0, disc_storage(disc_kind, label));
                d.set_value(c.descriptor.id, value_for(c.descriptor.r#type, s));
            } else {
                d.set_value(0, disc_storage(disc_kind, 0));
            }
        }
        _ => {
            for mm in ty.member_list {
                if mm.descriptor.is_optional && s.coin() {
                    continue;
                }
                d.set_value(mm.descriptor.id, value_for(mm.descriptor.r#type, s));
            }
        }
    }
    d
}
