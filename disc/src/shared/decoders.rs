//! The decoders C07 is about, behind one uniform entry point. Shared with `/verif/fuzz` via `#[path]`
//! (dust_dds + std only).

use super::palette;
use dust_dds::{rtps_messages::overall_structure::RtpsMessageRead, verif_hooks};

#[derive(Clone, Copy, PartialEq, Eq, Debug, PartialOrd, Ord)]
pub enum Decoder {
    RtpsMessage,
    Spdp,
    SedpPub,
    SedpSub,
    Topic,
    TypeLookupRequest,
    TypeLookupReply,
    /// index into `palette::palette()`
    Payload(usize),
}

pub const FUZZ_TARGETS: &[&str] = &[
    "rtps_message",
    "discovery_spdp",
    "discovery_sedp_pub",
    "discovery_sedp_sub",
    "discovery_topic",
    "type_lookup",
    "payload_decode",
];

impl Decoder {
    /// coarse label used in signatures (one per decoder family)
    pub fn label(&self) -> &'static str {
        match self {
            Decoder::RtpsMessage => "rtps_message",
            Decoder::Spdp => "discovery_spdp",
            Decoder::SedpPub => "discovery_sedp_pub",
            Decoder::SedpSub => "discovery_sedp_sub",
            Decoder::Topic => "discovery_topic",
            Decoder::TypeLookupRequest => "type_lookup_request",
            Decoder::TypeLookupReply => "type_lookup_reply",
            Decoder::Payload(_) => "payload_decode",
        }
    }

    /// precise name used in replay files
    pub fn name(&self) -> String {
        match self {
            Decoder::Payload(i) => format!("payload_decode/{}", palette::palette()[*i].name),
            d => d.label().to_string(),
        }
    }

    pub fn parse(name: &str) -> Option<Decoder> {
        Some(match name {
            "rtps_message" => Decoder::RtpsMessage,
            "discovery_spdp" => Decoder::Spdp,
            "discovery_sedp_pub" => Decoder::SedpPub,
            "discovery_sedp_sub" => Decoder::SedpSub,
            "discovery_topic" => Decoder::Topic,
            "type_lookup_request" => Decoder::TypeLookupRequest,
            "type_lookup_reply" => Decoder::TypeLookupReply,
            other => {
                let t = other.strip_prefix("payload_decode/")?;
                Decoder::Payload(palette::by_name(t)?.0)
            }
        })
    }

    pub fn fuzz_target(&self) -> &'static str {
        match self {
            Decoder::TypeLookupRequest | Decoder::TypeLookupReply => "type_lookup",
            d => d.label(),
        }
    }

    pub fn all() -> Vec<Decoder> {
        let mut v = vec![
            Decoder::RtpsMessage,
            Decoder::Spdp,
            Decoder::SedpPub,
            Decoder::SedpSub,
            Decoder::Topic,
            Decoder::TypeLookupRequest,
            Decoder::TypeLookupReply,
        ];
        for i in 0..palette::palette().len() {
            v.push(Decoder::Payload(i));
        }
        v
    }
}

/// Runs the decoder; `true` = it returned a value, `false` = it returned an error.
/// The result is dropped here, so destructor cost/allocations are inside the measured call.
pub fn decode(d: Decoder, bytes: &[u8]) -> bool {
    match d {
        Decoder::RtpsMessage => RtpsMessageRead::try_from(bytes).is_ok(),
        Decoder::Spdp => verif_hooks::decode_participant(bytes).is_ok(),
        Decoder::SedpPub => verif_hooks::decode_publication(bytes).is_ok(),
        Decoder::SedpSub => verif_hooks::decode_subscription(bytes).is_ok(),
        Decoder::Topic => verif_hooks::decode_topic(bytes).is_ok(),
        Decoder::TypeLookupRequest => verif_hooks::decode_type_lookup_request(bytes).is_ok(),
        Decoder::TypeLookupReply => verif_hooks::decode_type_lookup_reply(bytes).is_ok(),
        Decoder::Payload(i) => verif_hooks::deserialize(palette::palette()[i].ty, bytes).is_ok(),
    }
}

/// How a libFuzzer input of `target` maps to (decoder, bytes): `type_lookup` uses the first byte's low bit to pick
/// request/reply, `payload_decode` uses the first byte (mod palette size) to pick the type; the rest is the stream.
pub fn split_fuzz_input<'a>(target: &str, data: &'a [u8]) -> Option<(Decoder, &'a [u8])> {
    match target {
        "type_lookup" => {
            let (first, rest) = data.split_first()?;
            let d = if first & 1 == 0 { Decoder::TypeLookupRequest } else { Decoder::TypeLookupReply };
            Some((d, rest))
        }
        "payload_decode" => {
            let (first, rest) = data.split_first()?;
            let n = palette::palette().len();
            Some((Decoder::Payload(*first as usize % n), rest))
        }
        other => Decoder::parse(other).map(|d| (d, data)),
    }
}

/// Inverse of `split_fuzz_input` (used to write seed files and to describe artifacts).
pub fn fuzz_input(d: Decoder, bytes: &[u8]) -> Vec<u8> {
    match d {
        Decoder::TypeLookupRequest => [&[0u8][..], bytes].concat(),
        Decoder::TypeLookupReply => [&[1u8][..], bytes].concat(),
        Decoder::Payload(i) => [&[i as u8][..], bytes].concat(),
        _ => bytes.to_vec(),
    }
}
