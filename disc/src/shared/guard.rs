//! Panic capture and signature normalisation shared by the `disc` engine and the libFuzzer targets
//! (`/verif/fuzz` includes this file with `#[path]`; std only).

use std::sync::Mutex;
use std::sync::Once;

static LAST: Mutex<Option<(String, String)>> = Mutex::new(None);
static HOOK: Once = Once::new();

/// Installs (once) a silent panic hook that records `(file, message)` of the most recent panic.
/// Replaces whatever hook was there (libfuzzer-sys installs an aborting one; the targets decide themselves).
pub fn install_hook() {
    HOOK.call_once(|| {
        std::panic::set_hook(Box::new(|info| {
            let file = info.location().map(|l| l.file().to_string()).unwrap_or_else(|| "?".into());
            let payload = info.payload();
            let msg = if let Some(s) = payload.downcast_ref::<&str>() {
                s.to_string()
            } else if let Some(s) = payload.downcast_ref::<String>() {
                s.clone()
            } else {
                "non-string panic payload".to_string()
            };
            if let Ok(mut g) = LAST.lock() {
                *g = Some((file, msg));
            }
        }));
    });
}

pub fn take_last_panic() -> Option<(String, String)> {
    LAST.lock().ok().and_then(|mut g| g.take())
}

/// `/repo/dds/src/a/b.rs` → `a/b.rs`; `/rustc/<hash>/library/alloc/src/x.rs` → `rustc/library/alloc/src/x.rs`
pub fn normalise_file(file: &str) -> String {
    if let Some(i) = file.find("dds/src/") {
        return file[i + "dds/src/".len()..].to_string();
    }
    if let Some(rest) = file.strip_prefix("/rustc/") {
        if let Some(i) = rest.find('/') {
            return format!("rustc{}", &rest[i..]);
        }
    }
    if let Some(i) = file.find("/library/") {
        return format!("rustc{}", &file[i..]);
    }
    file.to_string()
}

/// digit runs → `N`, whitespace collapsed, cut at 120 chars
pub fn normalise_msg(msg: &str) -> String {
    let mut out = String::new();
    let mut in_digits = false;
    let mut last_space = false;
    for c in msg.chars() {
        if c.is_ascii_digit() {
            if !in_digits {
                out.push('N');
            }
            in_digits = true;
            last_space = false;
        } else if c.is_whitespace() {
            in_digits = false;
            if !last_space {
                out.push(' ');
            }
            last_space = true;
        } else {
            in_digits = false;
            last_space = false;
            out.push(c);
        }
        if out.len() >= 120 {
            break;
        }
    }
    out.trim().to_string()
}

/// arithmetic-overflow panics exist only where overflow checks are compiled in (dev/test profile and this
/// harness); they are labelled so they can be told apart from panics of every profile.
pub fn is_overflow_check_msg(msg: &str) -> bool {
    msg.starts_with("attempt to ") && msg.contains("overflow")
}

pub fn panic_signature(property: &str, file: &str, msg: &str) -> String {
    let m = normalise_msg(msg);
    let suffix = if is_overflow_check_msg(&m) { ":profile=overflow-checks" } else { "" };
    format!("{property}:panic:{}:{m}{suffix}", normalise_file(file))
}

/// Signatures listed for `property` in a known_findings.json text, extracted without a JSON library:
/// every object that contains `"property": "<property>"` contributes its `"signature"` string.
#[allow(dead_code)] // used by the fuzz crate only
pub fn known_signatures(json_text: &str, property: &str) -> Vec<String> {
    let mut out = vec![];
    // restrict to the "known" array when present, so "fixed" entries suppress nothing
    let scope = match json_text.find("\"known\"") {
        Some(i) => {
            let rest = &json_text[i..];
            match rest.find('[') {
                Some(a) => {
                    let mut depth = 0i32;
                    let mut end = rest.len();
                    let mut in_str = false;
                    let mut esc = false;
                    for (k, c) in rest[a..].char_indices() {
                        if in_str {
                            if esc {
                                esc = false;
                            } else if c == '\\' {
                                esc = true;
                            } else if c == '"' {
                                in_str = false;
                            }
                            continue;
                        }
                        match c {
                            '"' => in_str = true,
                            '[' => depth += 1,
                            ']' => {
                                depth -= 1;
                                if depth == 0 {
                                    end = a + k;
                                    break;
                                }
                            }
                            _ => {}
                        }
                    }
                    &rest[a..end]
                }
                None => "",
            }
        }
        None => "",
    };
    // split into top-level objects
    let mut depth = 0i32;
    let mut start = None;
    let mut in_str = false;
    let mut esc = false;
    for (k, c) in scope.char_indices() {
        if in_str {
            if esc {
                esc = false;
            } else if c == '\\' {
                esc = true;
            } else if c == '"' {
                in_str = false;
            }
            continue;
        }
        match c {
            '"' => in_str = true,
            '{' => {
                if depth == 0 {
                    start = Some(k);
                }
                depth += 1;
            }
            '}' => {
                depth -= 1;
                if depth == 0 {
                    if let Some(s) = start.take() {
                        let obj = &scope[s..=k];
                        if string_field(obj, "property").as_deref() == Some(property) {
                            if let Some(sig) = string_field(obj, "signature") {
                                out.push(sig);
                            }
                        }
                    }
                }
            }
            _ => {}
        }
    }
    out
}

#[allow(dead_code)]
fn string_field(obj: &str, field: &str) -> Option<String> {
    let pat = format!("\"{field}\"");
    let i = obj.find(&pat)?;
    let rest = &obj[i + pat.len()..];
    let colon = rest.find(':')?;
    let rest = rest[colon + 1..].trim_start();
    let mut chars = rest.chars();
    if chars.next()? != '"' {
        return None;
    }
    let mut out = String::new();
    let mut esc = false;
    for c in chars {
        if esc {
            match c {
                'n' => out.push('\n'),
                't' => out.push('\t'),
                other => out.push(other),
            }
            esc = false;
        } else if c == '\\' {
            esc = true;
        } else if c == '"' {
            return Some(out);
        } else {
            out.push(c);
        }
    }
    None
}
