//! Pool of *valid* encodings that the C07 mutation campaign starts from:
//! RTPS messages built with the public constructors (plus the three submessage kinds that have no public
//! constructor, assembled by hand from DDSI-RTPS 2.5 §9.4.5), discovery payloads from the C13 generator
//! (with foreign parameters), type-lookup requests/replies in both XCDR versions, and user payloads serialized by
//! `verif_hooks::serialize` for every palette type in the four encodings.

use crate::c13;
use crate::plist::PList;
use crate::shared::{
    decoders::Decoder,
    guard,
    palette::{self, Src},
};
use dust_dds::{
    rtps_messages::{
        overall_structure::{RtpsMessageHeader, RtpsMessageWrite, Submessage},
        submessage_elements::{Data, FragmentNumberSet, Parameter, ParameterList, SequenceNumberSet, SerializedDataFragment},
        submessages::{
            ack_nack::AckNackSubmessage, data::DataSubmessage, data_frag::DataFragSubmessage, gap::GapSubmessage,
            heartbeat::HeartbeatSubmessage, info_destination::InfoDestinationSubmessage,
            info_timestamp::InfoTimestampSubmessage, nack_frag::NackFragSubmessage, pad::PadSubmessage,
        },
        types::Time,
    },
    transport::types::{EntityId, ProtocolVersion},
    verif_hooks::{self, VerifEncoding},
};
use std::sync::Arc;

#[derive(Clone, Debug)]
pub struct Seed {
    pub decoder: Decoder,
    pub bytes: Vec<u8>,
}

fn entity_id(s: &mut Src) -> EntityId {
    const KINDS: [u8; 8] = [0xc1, 0xc2, 0xc7, 0xc4, 0x02, 0x03, 0x07, 0x04];
    match s.below(4) {
        0 => EntityId::new([0, 0, 0], 0),
        1 => EntityId::new([0, 0, 1], 0xc1),
        2 => EntityId::new([0, 1, 0], KINDS[s.below(8) as usize]),
        _ => EntityId::new([s.next() as u8, s.next() as u8, s.next() as u8], KINDS[s.below(8) as usize]),
    }
}

fn sn(s: &mut Src) -> i64 {
    match s.below(8) {
        0 => 0,
        1 => 1,
        2 => (1i64 << 31) - 1,
        3 => 1i64 << 32,
        4 => i64::MAX - 300,
        5 => -1,
        _ => (s.next() >> 20) as i64,
    }
}

fn sn_set(s: &mut Src) -> SequenceNumberSet {
    let base = sn(s).clamp(0, i64::MAX - 300);
    let n = s.below(5);
    let members: Vec<i64> = (0..n).map(|_| base + s.below(256) as i64).collect();
    SequenceNumberSet::new(base, members)
}

fn frag_set(s: &mut Src) -> FragmentNumberSet {
    let base = match s.below(3) {
        0 => 1u32,
        1 => 0,
        _ => (s.next() as u32) >> 2,
    };
    let n = s.below(5);
    let members: Vec<u32> = (0..n).map(|_| base + s.below(256) as u32).collect();
    FragmentNumberSet::new(base, members)
}

fn inline_qos(s: &mut Src) -> ParameterList {
    let n = s.below(4);
    let mut v = vec![];
    for _ in 0..n {
        let (pid, len): (i16, usize) = match s.below(5) {
            0 => (0x0070, 16), // PID_KEY_HASH
            1 => (0x0071, 4),  // PID_STATUS_INFO
            2 => (0x0005, 12),
            3 => ((0x8000u16 | s.below(0x100) as u16) as i16, 4 * s.below(4) as usize),
            _ => (s.below(0x80) as i16 + 2, 4 * s.below(6) as usize),
        };
        let value: Vec<u8> = (0..len).map(|_| s.next() as u8).collect();
        v.push(Parameter::new(pid, Arc::from(value)));
    }
    ParameterList::new(v)
}

fn payload(s: &mut Src) -> Vec<u8> {
    let n = [0usize, 4, 8, 12, 40, 200][s.below(6) as usize];
    let mut v: Vec<u8> = (0..n).map(|_| s.next() as u8).collect();
    if v.len() >= 4 {
        v[0] = 0;
        v[1] = [0u8, 1, 2, 3, 6, 7][s.below(6) as usize];
        v[2] = 0;
        v[3] = 0;
    }
    v
}

// --- the three kinds without a public constructor, written from the specification (little endian)

fn raw_heartbeat_frag(s: &mut Src) -> Vec<u8> {
    let mut b = vec![0x13, 0x01, 24, 0];
    b.extend_from_slice(&[0, 0, 1, 0x04, 0, 0, 1, 0x03]);
    let n = sn(s);
    b.extend_from_slice(&((n >> 32) as i32).to_le_bytes());
    b.extend_from_slice(&(n as u32).to_le_bytes());
    b.extend_from_slice(&(s.below(1000) as u32 + 1).to_le_bytes());
    b.extend_from_slice(&(s.below(100) as i32).to_le_bytes());
    b
}

fn raw_locator(s: &mut Src, b: &mut Vec<u8>) {
    b.extend_from_slice(&[1i32, 2, 0, -1][s.below(4) as usize].to_le_bytes());
    b.extend_from_slice(&(7400u32 + s.below(100) as u32).to_le_bytes());
    let mut a = [0u8; 16];
    a[12..].copy_from_slice(&[127, 0, 0, s.next() as u8]);
    b.extend_from_slice(&a);
}

fn raw_info_reply(s: &mut Src) -> Vec<u8> {
    let multicast = s.coin();
    let mut body = vec![];
    let nu = s.below(3) as u32;
    body.extend_from_slice(&nu.to_le_bytes());
    for _ in 0..nu {
        raw_locator(s, &mut body);
    }
    if multicast {
        let nm = s.below(3) as u32;
        body.extend_from_slice(&nm.to_le_bytes());
        for _ in 0..nm {
            raw_locator(s, &mut body);
        }
    }
    let mut b = vec![0x0f, if multicast { 0x03 } else { 0x01 }];
    b.extend_from_slice(&(body.len() as u16).to_le_bytes());
    b.extend_from_slice(&body);
    b
}

fn raw_info_source(s: &mut Src) -> Vec<u8> {
    let mut b = vec![0x0c, 0x01, 20, 0];
    b.extend_from_slice(&0u32.to_le_bytes());
    b.extend_from_slice(&[2, 4, 1, s.below(20) as u8]);
    b.extend((0..12).map(|_| s.next() as u8));
    b
}

pub fn rtps_message(s: &mut Src) -> Vec<u8> {
    let mut prefix = [0u8; 12];
    for p in prefix.iter_mut() {
        *p = s.next() as u8;
    }
    let header = RtpsMessageHeader::new(ProtocolVersion::new(2, [1u8, 3, 4, 5][s.below(4) as usize]), [0x01, 0x14], prefix);
    let n = 1 + s.below(5);
    let mut subs: Vec<Box<dyn Submessage + Send>> = vec![];
    let mut raw_tail: Vec<u8> = vec![];
    for _ in 0..n {
        match s.below(13) {
            0 => subs.push(Box::new(AckNackSubmessage::new(s.coin(), entity_id(s), entity_id(s), sn_set(s), s.next() as i32))),
            1 | 2 => {
                let q = s.coin();
                let (d, k) = match s.below(3) {
                    0 => (true, false),
                    1 => (false, true),
                    _ => (false, false),
                };
                let data = if d || k { payload(s) } else { vec![] };
                subs.push(Box::new(DataSubmessage::new(q, d, k, false, entity_id(s), entity_id(s), sn(s), if q { inline_qos(s) } else { ParameterList::empty() }, Data::new(Arc::from(data)))));
            }
            3 => {
                let q = s.coin();
                let frag_size = [8u16, 16, 100, 1344][s.below(4) as usize];
                let frags = 1 + s.below(3) as u16;
                let data: Vec<u8> = (0..(frag_size as usize * frags as usize).min(300)).map(|_| s.next() as u8).collect();
                subs.push(Box::new(DataFragSubmessage::new(
                    q,
                    false,
                    s.below(4) == 0,
                    entity_id(s),
                    entity_id(s),
                    sn(s),
                    1 + s.below(50) as u32,
                    frags,
                    frag_size,
                    frag_size as u32 * (frags as u32 + s.below(60) as u32),
                    if q { inline_qos(s) } else { ParameterList::empty() },
                    SerializedDataFragment::from(&data[..]),
                )));
            }
            4 => subs.push(Box::new(GapSubmessage::new(entity_id(s), entity_id(s), sn(s).clamp(0, i64::MAX - 400), sn_set(s)))),
            5 => {
                let first = sn(s).clamp(0, i64::MAX - 400);
                subs.push(Box::new(HeartbeatSubmessage::new(s.coin(), s.coin(), entity_id(s), entity_id(s), first, first + s.below(100) as i64 - 1, s.next() as i32)));
            }
            6 => subs.push(Box::new(InfoDestinationSubmessage::new(prefix))),
            7 => {
                let inv = s.below(4) == 0;
                subs.push(Box::new(InfoTimestampSubmessage::new(inv, Time::new(s.next() as u32, s.next() as u32))));
            }
            8 => subs.push(Box::new(NackFragSubmessage::new(entity_id(s), entity_id(s), sn(s), frag_set(s), s.next() as i32))),
            9 => subs.push(Box::new(PadSubmessage::new())),
            10 => raw_tail.extend(raw_heartbeat_frag(s)),
            11 => raw_tail.extend(raw_info_reply(s)),
            _ => raw_tail.extend(raw_info_source(s)),
        }
    }
    let refs: Vec<&(dyn Submessage + Send)> = subs.iter().map(|b| b.as_ref()).collect();
    let mut bytes = RtpsMessageWrite::new(&header, &refs).buffer().to_vec();
    bytes.extend(raw_tail);
    bytes
}

const ENCODINGS: [VerifEncoding; 4] = [VerifEncoding::Xcdr1Le, VerifEncoding::Xcdr1Be, VerifEncoding::Xcdr2Le, VerifEncoding::Xcdr2Be];

/// valid payloads of palette type `index`; encodings the serializer rejects (or panics on) are skipped and counted
pub fn payloads(index: usize, per_encoding: usize, s: &mut Src, skipped: &mut u64) -> Vec<Seed> {
    guard::install_hook();
    let ty = palette::palette()[index].ty;
    let mut out = vec![];
    for enc in ENCODINGS {
        for _ in 0..per_encoding {
            let value = palette::fill(ty, s);
            match std::panic::catch_unwind(std::panic::AssertUnwindSafe(|| verif_hooks::serialize(&value, enc))) {
                Ok(Ok(bytes)) => out.push(Seed { decoder: Decoder::Payload(index), bytes }),
                _ => {
                    guard::take_last_panic();
                    *skipped += 1;
                }
            }
        }
    }
    out
}

/// Unit-test byte vectors of the repository (copied by hand from the `#[cfg(test)]` modules named in the comments).
pub fn repository_test_vectors() -> Vec<Seed> {
    let mut v = vec![];
    // dds/src/xtypes/deserializer.rs: deserialize_type_lookup_request
    let mut req = vec![0x00u8, 0x07, 0x00, 0x00];
    req.extend_from_slice(&[1; 16]);
    req.extend_from_slice(&[0, 0, 0, 0, 5, 0, 0, 0, 1, 0, 0, 0, 0, 0, 0, 0]);
    req.extend_from_slice(&[20, 0, 0, 0, 211, 82, 130, 1, 12, 0, 0, 0, 101, 96, 83, 92, 4, 0, 0, 0, 0, 0, 0, 0]);
    v.push(Seed { decoder: Decoder::TypeLookupRequest, bytes: req.clone() });
    // same request with one type identifier (from deserialize_type_lookup_get_types_in)
    let mut req1 = vec![0x00u8, 0x07, 0x00, 0x00];
    req1.extend_from_slice(&[1; 16]);
    req1.extend_from_slice(&[0, 0, 0, 0, 5, 0, 0, 0, 1, 0, 0, 0, 0, 0, 0, 0]);
    req1.extend_from_slice(&[35, 0, 0, 0, 0xd3, 0x52, 0x82, 0x01, 27, 0, 0, 0, 101, 96, 83, 92, 19, 0, 0, 0, 1, 0, 0, 0, 242]);
    req1.extend_from_slice(&[5; 14]);
    req1.push(0);
    v.push(Seed { decoder: Decoder::TypeLookupRequest, bytes: req1 });
    // reply laid out by analogy (DDS-XTypes 1.3 §7.6.3.3.4): header, remote_ex, return union, result union, out struct
    let member_id = |name: &str| -> u32 {
        let d = md5::compute(name.as_bytes());
        u32::from_le_bytes([d[0], d[1], d[2], d[3]]) & 0x0fff_ffff
    };
    let mut rep = vec![0x00u8, 0x07, 0x00, 0x00];
    rep.extend_from_slice(&[1; 16]);
    rep.extend_from_slice(&[0, 0, 0, 0, 5, 0, 0, 0]);
    rep.extend_from_slice(&0i32.to_le_bytes()); // remote_ex = Ok
    rep.extend_from_slice(&0x018252d3u32.to_le_bytes()); // TypeLookupReturn discriminator
    rep.extend_from_slice(&32u32.to_le_bytes()); // TypeLookupGetTypesResult DHEADER
    rep.extend_from_slice(&0i32.to_le_bytes()); // discriminator 0 = Ok
    rep.extend_from_slice(&24u32.to_le_bytes()); // TypeLookupGetTypesOut DHEADER
    for name in ["types", "complete_to_minimal"] {
        rep.extend_from_slice(&((5u32 << 28) | member_id(name)).to_le_bytes());
        rep.extend_from_slice(&4u32.to_le_bytes());
        rep.extend_from_slice(&0u32.to_le_bytes());
    }
    v.push(Seed { decoder: Decoder::TypeLookupReply, bytes: rep });
    // dds/src/dcps/data_representation_builtin_endpoints/rtps_data_representation.rs: derserialize_test_discovery_data
    let disc: Vec<u8> = vec![
        0x00, 0x03, 0x00, 0x00, 15, 0x00, 0x04, 0x00, 0x01, 0x00, 0x00, 0x00, 0x14, 0x40, 0x08, 0x00, 3, 0x00, 0x00, 0x00, b'a', b'b', 0, 0x00, 0x16, 0x00, 4, 0x00, 73, 74,
        0x00, 0x00, 72, 0x00, 24, 0x00, 11, 0x00, 0x00, 0x00, 12, 0x00, 0x00, 0x00, 1, 1, 1, 1, 1, 1, 1, 1, 1, 1, 1, 1, 1, 1, 1, 1, 0x01, 0x00, 0x00, 0x00,
    ];
    for d in [Decoder::Spdp, Decoder::SedpPub, Decoder::SedpSub, Decoder::Topic] {
        v.push(Seed { decoder: d, bytes: disc.clone() });
    }
    // dds/src/dcps/data_representation_builtin_endpoints/discovered_writer_data.rs: serialize_all_default (expected bytes)
    let writer: Vec<u8> = vec![
        0x00, 0x03, 0x00, 0x00, 0x5a, 0x00, 16, 0, 1, 0, 0, 0, 2, 0, 0, 0, 3, 0, 0, 0, 4, 0, 0, 0, 0x50, 0x00, 16, 0, 6, 0, 0, 0, 7, 0, 0, 0, 8, 0, 0, 0, 9, 0, 0, 0, 0x05, 0x00,
        0x08, 0x00, 3, 0x00, 0x00, 0x00, b'a', b'b', 0, 0x00, 0x07, 0x00, 0x08, 0x00, 3, 0x00, 0x00, 0x00, b'c', b'd', 0, 0x00, 0x53, 0x00, 4, 0, 21, 22, 23, 0xc9, 0x01, 0x00,
        0x00, 0x00,
    ];
    v.push(Seed { decoder: Decoder::SedpPub, bytes: writer.clone() });
    v.push(Seed { decoder: Decoder::SedpSub, bytes: writer });
    // dds/src/rtps_messages/overall_structure.rs tests: header only, and header + DATA submessage
    let header: Vec<u8> = vec![b'R', b'T', b'P', b'S', 2, 3, 9, 8, 3, 3, 3, 3, 3, 3, 3, 3, 3, 3, 3, 3];
    v.push(Seed { decoder: Decoder::RtpsMessage, bytes: header.clone() });
    let mut with_data = header.clone();
    with_data.extend_from_slice(&[
        0x15, 0b_0000_0011, 40, 0, 0, 0, 16, 0, 1, 2, 3, 4, 6, 7, 8, 9, 0, 0, 0, 0, 5, 0, 0, 0, 6, 0, 4, 0, 10, 11, 12, 13, 7, 0, 4, 0, 20, 21, 22, 23, 1, 0, 0, 0,
    ]);
    v.push(Seed { decoder: Decoder::RtpsMessage, bytes: with_data });
    // dds/src/rtps_messages/submessages/nack_frag.rs-like: header + NACK_FRAG with a 2-bit set
    let mut nack = header;
    nack.extend_from_slice(&[0x12, 0x01, 28, 0, 1, 2, 3, 4, 6, 7, 8, 9, 0, 0, 0, 0, 4, 0, 0, 0, 10, 0, 0, 0, 2, 0, 0, 0, 0, 0, 0, 0xc0, 6, 0, 0, 0]);
    v.push(Seed { decoder: Decoder::RtpsMessage, bytes: nack });
    v
}

pub struct Pool {
    pub seeds: Vec<Seed>,
    pub skipped_serializations: u64,
}

/// `scale` = 1 for quick; the pool is a pure function of (seed, scale)
pub fn build(rng_seed: u64, scale: usize) -> Pool {
    let mut s = Src(rng_seed);
    let mut seeds = vec![];
    let mut skipped = 0u64;
    // RTPS messages
    for _ in 0..(160 * scale) {
        seeds.push(Seed { decoder: Decoder::RtpsMessage, bytes: rtps_message(&mut s) });
    }
    // discovery payloads from the C13 generator (oversize excluded), with foreign parameters spliced in
    let mut runner = vcore::pt::runner(1, rng_seed ^ 0x13, 0);
    let strategy = c13::case_strategy(0);
    let mut per_kind = [0usize; 4];
    let mut big = [0usize; 4];
    let want = 60 * scale;
    let mut guard_iter = 0;
    while per_kind.iter().any(|c| *c < want) && guard_iter < want * 40 {
        guard_iter += 1;
        let case = vcore::pt::draw(&mut runner, &strategy);
        let (slot, decoder) = match case.body.kind() {
            "participant" => (0, Decoder::Spdp),
            "publication" => (1, Decoder::SedpPub),
            "subscription" => (2, Decoder::SedpSub),
            _ => (3, Decoder::Topic),
        };
        if per_kind[slot] >= want {
            continue;
        }
        let built = c13::build(&case.body);
        let mut bytes = c13::encode(&built);
        if !case.foreign.is_empty() {
            if let Some(mut pl) = PList::parse_le(&bytes) {
                for op in &case.foreign {
                    c13::apply_foreign(&mut pl, op);
                }
                bytes = pl.to_bytes();
            }
        }
        if bytes.len() > 1500 {
            // keep only a few large ones: mutations of a 60 kB value mostly hit filler bytes
            if big[slot] >= 3 {
                continue;
            }
            big[slot] += 1;
        }
        per_kind[slot] += 1;
        seeds.push(Seed { decoder, bytes });
    }
    // user payloads
    for i in 0..palette::palette().len() {
        seeds.extend(payloads(i, 2 * scale, &mut s, &mut skipped));
    }
    seeds.extend(repository_test_vectors().into_iter().filter(|s| matches!(s.decoder, Decoder::TypeLookupRequest | Decoder::TypeLookupReply)));
    Pool { seeds, skipped_serializations: skipped }
}
