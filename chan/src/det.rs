//! Tier 1: generated sequences of atomic channel operations on one thread.
//!
//! A case is a channel kind plus a list of operations of up to four logical sender handles and one receiver. An
//! operation may carry *preemptions*: operations of other actors that the harness executes from the release hook of
//! its `critical_section` implementation right after the k-th critical section of the carrying operation, i.e. at
//! the only places where another thread could observe or change channel state in the middle of that operation.
//! Together these are the schedules of a multi-threaded program at critical-section granularity (one level of
//! overlap deep).

use std::{
    cell::{Cell, RefCell},
    collections::{BTreeMap, BTreeSet, hash_map::DefaultHasher},
    future::Future,
    hash::{Hash, Hasher},
    mem::ManuallyDrop,
    panic::{AssertUnwindSafe, catch_unwind},
    pin::Pin,
    rc::Rc,
    sync::{
        Arc,
        atomic::{AtomicUsize, Ordering},
    },
    task::{Context, Poll, Wake, Waker},
};

use proptest::prelude::*;
use serde::{Deserialize, Serialize};
use serde_json::{Value, json};
use vcore::{
    Ctx, Failure, Known, Report,
    pt::{CaseOutcome, idx, run_cases},
};

use crate::{
    channels::{
        mpsc::{MpscReceiver, MpscSender, mpsc_channel},
        notification::{NotificationReceiver, NotificationSender, notification},
        oneshot::{OneshotReceiver, OneshotSender, oneshot},
    },
    csimpl,
    model::{Ev, Judge, Kind, PollObs},
};

pub const MAX_SENDERS: usize = 4;

/// Payload type: deliberately neither `Clone` nor `Copy`, so "exactly once" is about moves of one object.
#[derive(Debug)]
pub struct Val(pub u32);

#[derive(Clone, Debug, PartialEq, Eq, Hash, Serialize, Deserialize)]
pub enum Act {
    /// send / notify through the n-th live sender handle (choice mapped monotonically onto the live handles)
    Send(u16),
    Clone(u16),
    DropSender(u16),
    /// poll the receive future once; `fresh` = with a brand-new waker instead of the previously used one
    Poll { fresh: bool },
    /// drop the in-flight mpsc `receive()` future
    Cancel,
    DropReceiver,
}

#[derive(Clone, Debug, PartialEq, Eq, Hash, Serialize, Deserialize)]
pub struct Op {
    pub act: Act,
    /// (k, act): run `act` (of another actor) right after the k-th critical section of this operation
    #[serde(default, skip_serializing_if = "Vec::is_empty")]
    pub preempt: Vec<(u8, Act)>,
}

#[derive(Clone, Debug, PartialEq, Eq, Hash, Serialize, Deserialize)]
pub struct Case {
    pub kind: Kind,
    pub ops: Vec<Op>,
}

// ------------------------------------------------------------------------------------------------------------
// generator

fn act_strategy(kind: Kind) -> BoxedStrategy<Act> {
    let send = any::<u16>().prop_map(Act::Send);
    let clone = any::<u16>().prop_map(Act::Clone);
    let drop_s = any::<u16>().prop_map(Act::DropSender);
    let poll = prop::bool::weighted(0.3).prop_map(|fresh| Act::Poll { fresh });
    match kind {
        Kind::Oneshot => prop_oneof![30 => send, 22 => drop_s, 40 => poll, 8 => Just(Act::DropReceiver)].boxed(),
        Kind::Mpsc => prop_oneof![
            35 => send,
            12 => clone,
            10 => drop_s,
            35 => poll,
            6 => Just(Act::Cancel),
            2 => Just(Act::DropReceiver)
        ]
        .boxed(),
        Kind::Notification => {
            prop_oneof![9 => send, 24 => clone, 30 => drop_s, 34 => poll, 3 => Just(Act::DropReceiver)].boxed()
        }
    }
}

fn op_strategy(kind: Kind) -> impl Strategy<Value = Op> {
    let pre = prop_oneof![
        86 => Just(Vec::<(u8, Act)>::new()),
        11 => (1u8..=2, act_strategy(kind)).prop_map(|p| vec![p]),
        3 => prop::collection::vec((1u8..=2, act_strategy(kind)), 2),
    ];
    (act_strategy(kind), pre).prop_map(|(act, preempt)| Op { act, preempt })
}

pub fn max_ops(kind: Kind) -> usize {
    match kind {
        Kind::Oneshot => 10,
        Kind::Notification => 30,
        Kind::Mpsc => 60,
    }
}

pub fn case_strategy(kind: Kind) -> impl Strategy<Value = Case> {
    prop::collection::vec(op_strategy(kind), 1..=max_ops(kind)).prop_map(move |ops| Case { kind, ops })
}

// ------------------------------------------------------------------------------------------------------------
// subject handles

struct CountWaker {
    n: AtomicUsize,
}

impl Wake for CountWaker {
    fn wake(self: Arc<Self>) {
        self.n.fetch_add(1, Ordering::SeqCst);
    }
    fn wake_by_ref(self: &Arc<Self>) {
        self.n.fetch_add(1, Ordering::SeqCst);
    }
}

enum SenderH {
    One(OneshotSender<Val>),
    Mp(MpscSender<Val>),
    No(NotificationSender),
}

type MpFut = Pin<Box<dyn Future<Output = Option<Val>>>>;

enum RecvH {
    One(OneshotReceiver<Val>),
    Mp { rx: Arc<MpscReceiver<Val>>, fut: Option<MpFut> },
    No(NotificationReceiver),
}

pub const ACT_NAMES: [&str; 6] = ["send", "clone", "drop_sender", "poll", "cancel", "drop_receiver"];

fn act_index(a: &Act) -> usize {
    match a {
        Act::Send(_) => 0,
        Act::Clone(_) => 1,
        Act::DropSender(_) => 2,
        Act::Poll { .. } => 3,
        Act::Cancel => 4,
        Act::DropReceiver => 5,
    }
}

struct World {
    kind: Kind,
    slots: [Option<SenderH>; MAX_SENDERS],
    /// handles currently taken out of their slot by an operation in progress
    in_use: usize,
    recv: Option<RecvH>,
    recv_done: bool,
    wakers: Vec<Arc<CountWaker>>,
    cur_waker: Option<usize>,
    next_value: u32,
    // bookkeeping for the non-triviality rule and the class histogram (not used by the oracle)
    h_waiting: bool,
    h_live: usize,
    h_recv_alive: bool,
    rule_a: bool,
    rule_b: bool,
    saw_disconnect: bool,
    saw_value: bool,
    saw_cancel_while_waiting: bool,
    saw_fresh_waker_while_waiting: bool,
    /// bit c of entry a is set when an operation of kind a used c outermost critical sections
    cs_bits: [u16; 6],
    trace: Option<Vec<String>>,
}

impl World {
    fn new(kind: Kind, trace: bool) -> World {
        let (s, r) = match kind {
            Kind::Oneshot => {
                let (s, r) = oneshot::<Val>();
                (SenderH::One(s), RecvH::One(r))
            }
            Kind::Mpsc => {
                let (s, r) = mpsc_channel::<Val>();
                (SenderH::Mp(s), RecvH::Mp { rx: Arc::new(r), fut: None })
            }
            Kind::Notification => {
                let (s, r) = notification();
                (SenderH::No(s), RecvH::No(r))
            }
        };
        World {
            kind,
            slots: [Some(s), None, None, None],
            in_use: 0,
            recv: Some(r),
            recv_done: false,
            wakers: vec![],
            cur_waker: None,
            next_value: 1,
            h_waiting: false,
            h_live: 1,
            h_recv_alive: true,
            rule_a: false,
            rule_b: false,
            saw_disconnect: false,
            saw_value: false,
            saw_cancel_while_waiting: false,
            saw_fresh_waker_while_waiting: false,
            cs_bits: [0; 6],
            trace: if trace { Some(vec![]) } else { None },
        }
    }

    fn live_slots(&self) -> Vec<usize> {
        (0..MAX_SENDERS).filter(|i| self.slots[*i].is_some()).collect()
    }

    fn take_sender(&mut self, sel: u16) -> Option<(usize, SenderH)> {
        let live = self.live_slots();
        if live.is_empty() {
            return None;
        }
        let slot = live[idx(sel, live.len())];
        self.in_use += 1;
        Some((slot, self.slots[slot].take().unwrap()))
    }

    /// Puts a handle (back) into `slot`, or into any empty slot when a preempting operation filled that one
    /// meanwhile (slot numbers carry no meaning for the oracle; `in_use` reservations guarantee room).
    fn put_sender(&mut self, slot: usize, h: SenderH) {
        let dst = if self.slots[slot].is_none() {
            slot
        } else {
            (0..MAX_SENDERS).find(|i| self.slots[*i].is_none()).expect("reserved slot")
        };
        self.slots[dst] = Some(h);
        self.in_use -= 1;
    }

    fn free_slot(&self) -> Option<usize> {
        // handles in use keep their slot reserved
        let occupied = self.slots.iter().filter(|s| s.is_some()).count() + self.in_use;
        if occupied >= MAX_SENDERS {
            return None;
        }
        (0..MAX_SENDERS).find(|i| self.slots[*i].is_none())
    }

    /// bookkeeping after an executed event, in execution order
    fn note(&mut self, ev: &Ev) {
        match ev {
            Ev::Send { refused, .. } => {
                if !*refused && self.h_waiting && self.h_recv_alive {
                    self.rule_a = true;
                }
                if self.kind == Kind::Oneshot {
                    self.h_live = 0;
                }
            }
            Ev::Clone => self.h_live += 1,
            Ev::DropSender => {
                self.h_live -= 1;
                if self.h_live == 0 && self.h_recv_alive && !self.recv_done {
                    self.rule_b = true;
                    if self.h_waiting {
                        self.rule_a = true;
                    }
                }
            }
            Ev::Poll { obs, .. } => {
                self.h_waiting = *obs == PollObs::Pending;
                match obs {
                    PollObs::Disconnected => self.saw_disconnect = true,
                    PollObs::Value(_) | PollObs::Unit => self.saw_value = true,
                    PollObs::Pending => {}
                }
            }
            Ev::Cancel => {
                if self.h_waiting {
                    self.saw_cancel_while_waiting = true;
                }
                self.h_waiting = false;
            }
            Ev::DropReceiver => {
                self.h_waiting = false;
                self.h_recv_alive = false;
            }
        }
    }
}

// ------------------------------------------------------------------------------------------------------------
// executor

struct Runner {
    world: RefCell<World>,
    /// preemptions of the operation in progress that have not fired yet
    plan: RefCell<Vec<(u8, Act)>>,
    /// (boundary, event) of the preemptions that fired during the operation in progress
    fired: RefCell<Vec<(u64, Ev)>>,
    in_outer: Cell<bool>,
    in_nested: Cell<bool>,
    outer_base: Cell<u64>,
    nested_used: Cell<u64>,
}

impl Runner {
    /// critical sections of the operation in progress completed so far (not counting preempting operations)
    fn outer_sections(&self) -> u64 {
        csimpl::sections() - self.outer_base.get() - self.nested_used.get()
    }

    /// release hook: an outermost critical section of this thread has just been released
    fn on_release(&self) {
        if !self.in_outer.get() || self.in_nested.get() {
            return;
        }
        let boundary = self.outer_sections();
        loop {
            let next = {
                let mut p = self.plan.borrow_mut();
                p.iter().position(|(k, _)| *k as u64 == boundary).map(|i| p.remove(i))
            };
            let Some((_, act)) = next else { break };
            self.in_nested.set(true);
            let s0 = csimpl::sections();
            let ev = self.exec_act(&act);
            self.nested_used.set(self.nested_used.get() + (csimpl::sections() - s0));
            self.in_nested.set(false);
            if let Some(ev) = ev {
                self.fired.borrow_mut().push((boundary, ev));
            }
        }
    }

    /// Executes one action against the subject. Returns `None` when the action is not applicable in the current
    /// state (no such handle, receiver finished, ...): it is then skipped. The world is never borrowed while subject
    /// code runs, because subject code re-enters the runner through the release hook.
    fn exec_act(&self, act: &Act) -> Option<Ev> {
        let s0 = csimpl::sections();
        let n0 = self.nested_used.get();
        let ev = match act {
            Act::Send(sel) => {
                let (slot, h, value) = {
                    let mut w = self.world.borrow_mut();
                    let (slot, h) = w.take_sender(*sel)?;
                    let v = w.next_value;
                    w.next_value += 1;
                    (slot, h, v)
                };
                // (handles are leaked, not dropped, if the subject panics: see run_case_caught)
                let (back, refused) = match h {
                    SenderH::One(s) => {
                        s.send(Val(value));
                        (None, false)
                    }
                    SenderH::Mp(s) => {
                        let s = ManuallyDrop::new(s);
                        let r = s.send(Val(value));
                        (Some(SenderH::Mp(ManuallyDrop::into_inner(s))), r.is_err())
                    }
                    SenderH::No(s) => {
                        let s = ManuallyDrop::new(s);
                        s.notify();
                        (Some(SenderH::No(ManuallyDrop::into_inner(s))), false)
                    }
                };
                let mut w = self.world.borrow_mut();
                match back {
                    Some(h) => w.put_sender(slot, h),
                    None => w.in_use -= 1,
                }
                Ev::Send { value, refused }
            }
            Act::Clone(sel) => {
                let (slot, h, free) = {
                    let mut w = self.world.borrow_mut();
                    if w.kind == Kind::Oneshot {
                        return None;
                    }
                    let free = w.free_slot()?;
                    let (slot, h) = w.take_sender(*sel)?;
                    // reserve the destination as well while the clone is in progress
                    w.in_use += 1;
                    (slot, h, free)
                };
                let h = ManuallyDrop::new(h);
                let c = match &*h {
                    SenderH::Mp(s) => SenderH::Mp(s.clone()),
                    SenderH::No(s) => SenderH::No(s.clone()),
                    SenderH::One(_) => unreachable!(),
                };
                let h = ManuallyDrop::into_inner(h);
                let mut w = self.world.borrow_mut();
                w.put_sender(slot, h);
                w.put_sender(free, c);
                Ev::Clone
            }
            Act::DropSender(sel) => {
                let (_slot, h) = {
                    let mut w = self.world.borrow_mut();
                    w.take_sender(*sel)?
                };
                drop(h);
                self.world.borrow_mut().in_use -= 1;
                Ev::DropSender
            }
            Act::Poll { fresh } => {
                let (mut r, waker_no, waker, baseline) = {
                    let mut w = self.world.borrow_mut();
                    if w.recv_done {
                        return None;
                    }
                    let r = w.recv.take()?;
                    let no = match (w.cur_waker, *fresh) {
                        (Some(n), false) => n,
                        _ => {
                            if w.h_waiting {
                                w.saw_fresh_waker_while_waiting = true;
                            }
                            w.wakers.push(Arc::new(CountWaker { n: AtomicUsize::new(0) }));
                            w.wakers.len() - 1
                        }
                    };
                    w.cur_waker = Some(no);
                    let arc = w.wakers[no].clone();
                    let baseline = arc.n.load(Ordering::SeqCst);
                    (r, no, Waker::from(arc), baseline)
                };
                let mut cx = Context::from_waker(&waker);
                let (obs, done) = match &mut r {
                    RecvH::One(rx) => match Pin::new(rx).poll(&mut cx) {
                        Poll::Pending => (PollObs::Pending, false),
                        Poll::Ready(Ok(v)) => (PollObs::Value(v.0), true),
                        Poll::Ready(Err(_)) => (PollObs::Disconnected, true),
                    },
                    RecvH::No(rx) => match Pin::new(rx).poll(&mut cx) {
                        Poll::Pending => (PollObs::Pending, false),
                        Poll::Ready(Ok(())) => (PollObs::Unit, true),
                        Poll::Ready(Err(_)) => (PollObs::Disconnected, true),
                    },
                    RecvH::Mp { rx, fut } => {
                        if fut.is_none() {
                            let rx2 = rx.clone();
                            *fut = Some(Box::pin(async move { rx2.receive().await }));
                        }
                        let res = fut.as_mut().unwrap().as_mut().poll(&mut cx);
                        if res.is_ready() {
                            *fut = None;
                        }
                        match res {
                            Poll::Pending => (PollObs::Pending, false),
                            Poll::Ready(Some(v)) => (PollObs::Value(v.0), false),
                            Poll::Ready(None) => (PollObs::Disconnected, false),
                        }
                    }
                };
                drop(cx);
                drop(waker);
                let mut w = self.world.borrow_mut();
                w.recv = Some(r);
                w.recv_done = done;
                Ev::Poll { waker: waker_no, baseline, obs }
            }
            Act::Cancel => {
                let fut = {
                    let mut w = self.world.borrow_mut();
                    match w.recv.as_mut()? {
                        RecvH::Mp { fut, .. } => fut.take()?,
                        _ => return None,
                    }
                };
                drop(fut);
                Ev::Cancel
            }
            Act::DropReceiver => {
                let r = self.world.borrow_mut().recv.take()?;
                drop(r);
                Ev::DropReceiver
            }
        };
        let own = (csimpl::sections() - s0) - (self.nested_used.get() - n0);
        let mut w = self.world.borrow_mut();
        w.cs_bits[act_index(act)] |= 1u16 << own.min(15);
        w.note(&ev);
        if let Some(t) = w.trace.as_mut() {
            t.push(format!(
                "    {}{:?} -> {:?}   [{} critical section(s)]",
                if self.in_nested.get() { "preempting " } else { "" },
                act,
                ev,
                own
            ));
        }
        Some(ev)
    }
}

#[derive(Default)]
pub struct CaseStats {
    pub executed: u32,
    pub skipped: u32,
    pub preempt_interior: u32,
    pub preempt_tail: u32,
    pub preempt_unfired: u32,
    pub multi_linearization_steps: u32,
    pub max_queue: usize,
    pub cs_bits: [u16; 6],
    pub rule_a: bool,
    pub rule_b: bool,
    pub saw_disconnect: bool,
    pub saw_value: bool,
    pub saw_cancel_while_waiting: bool,
    pub saw_fresh_waker_while_waiting: bool,
    pub key: u64,
    pub trace: Vec<String>,
}

/// Runs one case. `Err((signature, explanation))` when the oracle rejects it.
fn new_runner(case: &Case, trace: bool) -> Rc<Runner> {
    Rc::new(Runner {
        world: RefCell::new(World::new(case.kind, trace)),
        plan: RefCell::new(vec![]),
        fired: RefCell::new(vec![]),
        in_outer: Cell::new(false),
        in_nested: Cell::new(false),
        outer_base: Cell::new(0),
        nested_used: Cell::new(0),
    })
}

fn run_case(case: &Case, trace: bool, runner: &Rc<Runner>) -> (CaseStats, Result<(), (String, String)>) {
    {
        let r2 = runner.clone();
        csimpl::set_release_hook(Some(Rc::new(move || r2.on_release())));
    }
    let mut st = CaseStats::default();
    let mut judge = Judge::new(case.kind);
    let mut hasher = DefaultHasher::new();
    case.kind.hash(&mut hasher);
    let mut verdict = Ok(());

    for (i, op) in case.ops.iter().enumerate() {
        if trace {
            runner.world.borrow_mut().trace.as_mut().unwrap().push(format!("op {i}: {:?}", op));
        }
        *runner.plan.borrow_mut() = op.preempt.clone();
        runner.fired.borrow_mut().clear();
        runner.outer_base.set(csimpl::sections());
        runner.nested_used.set(0);
        runner.in_outer.set(true);
        let outer = runner.exec_act(&op.act);
        runner.in_outer.set(false);
        let total = runner.outer_sections();
        st.preempt_unfired += runner.plan.borrow().len() as u32;
        let Some(outer) = outer else {
            st.skipped += 1;
            continue;
        };
        st.executed += 1;
        let fired = std::mem::take(&mut *runner.fired.borrow_mut());
        for (b, _) in &fired {
            if *b < total {
                st.preempt_interior += 1;
            } else {
                st.preempt_tail += 1;
            }
        }
        outer.hash(&mut hasher);
        fired.hash(&mut hasher);
        let nested: Vec<Ev> = fired.into_iter().map(|(_, e)| e).collect();
        let res = {
            let w = runner.world.borrow();
            let wakers = &w.wakers;
            judge.step(&outer, &nested, &|i| wakers[i].n.load(Ordering::SeqCst))
        };
        match res {
            Ok(info) => {
                if info.linearizations_accepted > 1 {
                    st.multi_linearization_steps += 1;
                }
                st.max_queue = st.max_queue.max(judge.main().queue.len());
                if trace {
                    let m = judge.main();
                    let line = format!(
                        "    model: undelivered={:?} notified={} live_senders={} waiting_on_waker={:?} ({} candidate state(s))",
                        m.queue,
                        m.flag,
                        m.senders,
                        m.waiting.map(|w| w.0),
                        judge.cands.len()
                    );
                    runner.world.borrow_mut().trace.as_mut().unwrap().push(line);
                }
            }
            Err(rej) => {
                verdict = Err((rej.signature(case.kind), format!("{} channel, op {i} ({:?}): {}", case.kind.name(), op.act, rej.what)));
                break;
            }
        }
    }
    csimpl::set_release_hook(None);
    // Teardown: every handle a program holds is dropped eventually. Do it here, one handle at a time (receiver
    // first, so no wake-up obligation arises), inside the region where a panicking destructor is caught.
    runner.exec_act(&Act::DropReceiver);
    while runner.exec_act(&Act::DropSender(0)).is_some() {}
    {
        let mut w = runner.world.borrow_mut();
        st.cs_bits = w.cs_bits;
        st.rule_a = w.rule_a;
        st.rule_b = w.rule_b;
        st.saw_disconnect = w.saw_disconnect;
        st.saw_value = w.saw_value;
        st.saw_cancel_while_waiting = w.saw_cancel_while_waiting;
        st.saw_fresh_waker_while_waiting = w.saw_fresh_waker_while_waiting;
        st.trace = w.trace.take().unwrap_or_default();
    }
    st.key = hasher.finish();
    (st, verdict)
}

/// `run_case` with panics of the subject turned into verdicts.
pub fn run_case_caught(case: &Case, trace: bool) -> (CaseStats, Result<(), (String, String)>) {
    // The runner (and with it every channel handle) lives outside the unwinding region and is leaked when the
    // subject panics: running the remaining destructors of a channel in a corrupt state could panic again during
    // unwinding, which aborts the process.
    let runner = new_runner(case, trace);
    match catch_unwind(AssertUnwindSafe(|| run_case(case, trace, &runner))) {
        Ok(r) => r,
        Err(_) => {
            csimpl::reset_after_panic();
            let (file, msg) = csimpl::take_last_panic();
            let mut h = DefaultHasher::new();
            case.hash(&mut h);
            let mut st = CaseStats { key: h.finish(), ..Default::default() };
            if let Ok(mut w) = runner.world.try_borrow_mut() {
                st.trace = w.trace.take().unwrap_or_default();
            }
            std::mem::forget(runner);
            (
                st,
                Err((
                    csimpl::panic_signature(&file, &msg),
                    format!("{} channel: panic at {file}: {msg}", case.kind.name()),
                )),
            )
        }
    }
}

// ------------------------------------------------------------------------------------------------------------
// campaign

#[derive(Default)]
struct Agg {
    cs: BTreeMap<String, BTreeSet<u32>>,
    executed: u64,
    skipped: u64,
    samples_given: BTreeMap<&'static str, u32>,
}

fn eval(case: &Case, agg: &RefCell<Agg>) -> CaseOutcome {
    let (st, verdict) = run_case_caught(case, false);
    let mut a = agg.borrow_mut();
    a.executed += st.executed as u64;
    a.skipped += st.skipped as u64;
    for (i, bits) in st.cs_bits.iter().enumerate() {
        if *bits != 0 {
            let e = a.cs.entry(format!("{}.{}", case.kind.name(), ACT_NAMES[i])).or_default();
            for c in 0..16 {
                if bits & (1 << c) != 0 {
                    e.insert(c);
                }
            }
        }
    }
    let nontrivial = st.rule_a || st.rule_b;
    let mut out = CaseOutcome::pass(st.key, nontrivial);
    let k = case.kind.name();
    out.classes.push(format!("{k}"));
    let mut cl = |name: &str| out.classes.push(format!("{k}:{name}"));
    if st.rule_a {
        cl("pending-then-ready");
    }
    if st.rule_b {
        cl("last-sender-dropped");
    }
    if st.saw_disconnect {
        cl("disconnect-reported");
    }
    if st.saw_value {
        cl("value-delivered");
    }
    if st.max_queue >= 2 {
        cl("queue-depth>=2");
    }
    if st.preempt_interior > 0 {
        cl("preempted-between-critical-sections");
    }
    if st.preempt_tail > 0 {
        cl("preempted-after-last-critical-section");
    }
    if st.multi_linearization_steps > 0 {
        cl("overlap-with-two-valid-orders");
    }
    if st.saw_cancel_while_waiting {
        cl("pending-future-cancelled");
    }
    if st.saw_fresh_waker_while_waiting {
        cl("waker-replaced-while-waiting");
    }
    if nontrivial {
        let n = a.samples_given.entry(k).or_insert(0);
        if *n < 2 {
            *n += 1;
            out.sample = Some(serde_json::to_value(case).unwrap());
        }
    }
    if let Err((sig, what)) = verdict {
        out = out.fail(sig, what);
    }
    out
}

fn campaign_sizes(ctx: &Ctx) -> [(Kind, u32); 3] {
    // fixed work per tier
    let (o, n, m) = ctx.pick((30_000u32, 50_000u32, 120_000u32), (1_000_000, 2_000_000, 7_000_000));
    [(Kind::Oneshot, o), (Kind::Notification, n), (Kind::Mpsc, m)]
}

fn fails_with(case: &Case, sig: &str) -> bool {
    matches!(run_case_caught(case, false), (_, Err((s, _))) if s == sig)
}

/// Greedy one-at-a-time reduction: drop operations, drop preemptions, simplify selectors.
fn minimize(mut case: Case, sig: &str) -> Case {
    loop {
        let mut changed = false;
        let mut i = 0;
        while i < case.ops.len() {
            let mut c = case.clone();
            c.ops.remove(i);
            if !c.ops.is_empty() && fails_with(&c, sig) {
                case = c;
                changed = true;
            } else {
                i += 1;
            }
        }
        for i in 0..case.ops.len() {
            let mut j = 0;
            while j < case.ops[i].preempt.len() {
                let mut c = case.clone();
                c.ops[i].preempt.remove(j);
                if fails_with(&c, sig) {
                    case = c;
                    changed = true;
                } else {
                    j += 1;
                }
            }
            let simpler = |a: &Act| match a {
                Act::Send(n) if *n != 0 => Some(Act::Send(0)),
                Act::Clone(n) if *n != 0 => Some(Act::Clone(0)),
                Act::DropSender(n) if *n != 0 => Some(Act::DropSender(0)),
                Act::Poll { fresh: true } => Some(Act::Poll { fresh: false }),
                _ => None,
            };
            if let Some(a) = simpler(&case.ops[i].act) {
                let mut c = case.clone();
                c.ops[i].act = a;
                if fails_with(&c, sig) {
                    case = c;
                    changed = true;
                }
            }
        }
        if !changed {
            return case;
        }
    }
}

pub fn run(ctx: &Ctx, known: &Known, report: &mut Report) {
    let agg = RefCell::new(Agg::default());
    for (kind, cases) in campaign_sizes(ctx) {
        let strat = case_strategy(kind);
        let f = run_cases(
            cases,
            ctx.rng_seed(&format!("det/{}", kind.name())),
            20_000,
            &strat,
            &mut report.stats,
            known,
            |c| eval(c, &agg),
            |c| serde_json::to_value(c).unwrap(),
        );
        if let Some(mut f) = f {
            // proptest's shrinker may stop at a local minimum; finish with a greedy pass that keeps the signature
            if let Ok(case) = serde_json::from_value::<Case>(f.case.clone()) {
                let min = minimize(case, &f.signature);
                if let (_, Err((sig, what))) = run_case_caught(&min, false) {
                    if sig == f.signature {
                        f.what = what;
                        f.case = serde_json::to_value(&min).unwrap();
                        f.shrunk_to = Some(f.case.to_string().len() as u64);
                    }
                }
            }
            report.failures.push(f);
        }
    }
    let a = agg.into_inner();
    let cs: BTreeMap<String, Vec<u32>> = a.cs.into_iter().map(|(k, v)| (k, v.into_iter().collect())).collect();
    // Premise check: an operation is an atomic step only if it is at most one critical section. Operations that
    // take more must have been preempted between their sections often enough, otherwise sequences do not stand for
    // thread schedules and the run proves less than it claims.
    if report.failures.is_empty() {
        for (op, counts) in &cs {
            let max = counts.iter().copied().max().unwrap_or(0);
            if max >= 2 {
                let kind = op.split('.').next().unwrap_or("");
                let n = report.stats.classes.get(&format!("{kind}:preempted-between-critical-sections")).copied().unwrap_or(0);
                if n < 100 {
                    report.inconclusive.push(format!(
                        "{op} takes up to {max} critical sections but only {n} cases preempted a {kind} operation between \
                         its sections: schedule space not covered"
                    ));
                }
            }
        }
    }
    report.stats.extra.insert("critical_sections_per_operation".into(), json!(cs));
    report.stats.extra.insert("operations_executed".into(), json!(a.executed));
    report.stats.extra.insert("operations_skipped_not_applicable".into(), json!(a.skipped));
}

pub fn replay(case: &Value, report: &mut Report) {
    if case.get("threads").is_some() {
        println!("replay: this file records a thread-tier run, which is not deterministic; nothing to replay");
        report.inconclusive.push("thread-tier records cannot be replayed deterministically".into());
        return;
    }
    let case: Case = match serde_json::from_value(case.clone()) {
        Ok(c) => c,
        Err(e) => {
            report.inconclusive.push(format!("replay file does not hold a C34 case: {e}"));
            return;
        }
    };
    let (st, verdict) = run_case_caught(&case, true);
    println!("replay of a {} case with {} operations", case.kind.name(), case.ops.len());
    for l in &st.trace {
        println!("{l}");
    }
    report.stats.evaluations = 1;
    match verdict {
        Ok(()) => println!("oracle: case accepted"),
        Err((signature, what)) => {
            println!("oracle: REJECTED [{signature}] {what}");
            report.failures.push(Failure { signature, what, case: serde_json::to_value(&case).unwrap(), shrunk_from: None, shrunk_to: None });
        }
    }
}
