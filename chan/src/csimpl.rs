//! The `critical_section` implementation the channel sources run against.
//!
//! * one global lock (real exclusion, so the thread tier is meaningful),
//! * per-thread count of outermost sections (the harness derives "sections per operation" from it),
//! * nested sections are legal for `critical_section` but would invalidate the atomic-step model; they are
//!   tolerated (no deadlock) and counted, and any occurrence makes the run inconclusive,
//! * a per-thread *release hook*: called right after an outermost section was released, i.e. exactly at the
//!   points where another thread could get in. The deterministic tier uses it to run operations of other actors
//!   between the critical sections of one operation.

use std::{
    cell::{Cell, RefCell},
    rc::Rc,
    sync::atomic::{AtomicBool, AtomicU64, Ordering},
};

static LOCK: AtomicBool = AtomicBool::new(false);
static NESTED: AtomicU64 = AtomicU64::new(0);

thread_local! {
    static DEPTH: Cell<u32> = const { Cell::new(0) };
    static SECTIONS: Cell<u64> = const { Cell::new(0) };
    static HOOK: RefCell<Option<Rc<dyn Fn()>>> = const { RefCell::new(None) };
    static LAST_PANIC: RefCell<Option<(String, String)>> = const { RefCell::new(None) };
}

struct VerifCs;
critical_section::set_impl!(VerifCs);

unsafe impl critical_section::Impl for VerifCs {
    unsafe fn acquire() {
        let d = DEPTH.get();
        if d > 0 {
            NESTED.fetch_add(1, Ordering::Relaxed);
            DEPTH.set(d + 1);
            return;
        }
        let mut spins = 0u32;
        while LOCK.compare_exchange_weak(false, true, Ordering::Acquire, Ordering::Relaxed).is_err() {
            spins += 1;
            if spins < 16 {
                std::hint::spin_loop();
            } else {
                std::thread::yield_now();
            }
        }
        DEPTH.set(1);
        SECTIONS.set(SECTIONS.get() + 1);
    }

    unsafe fn release(_restore: ()) {
        let d = DEPTH.get();
        DEPTH.set(d.saturating_sub(1));
        if d == 1 {
            LOCK.store(false, Ordering::Release);
            if !std::thread::panicking() {
                let hook = HOOK.with(|h| h.borrow().clone());
                if let Some(h) = hook {
                    h();
                }
            }
        }
    }
}

/// Outermost critical sections entered by this thread so far.
pub fn sections() -> u64 {
    SECTIONS.get()
}

pub fn nested_sections_seen() -> u64 {
    NESTED.load(Ordering::Relaxed)
}

pub fn set_release_hook(h: Option<Rc<dyn Fn()>>) {
    HOOK.with(|c| *c.borrow_mut() = h);
}

/// After a caught panic: make sure this thread does not keep the lock (it cannot: `with` releases on unwind, but a
/// panic inside `acquire`/`release` themselves would).
pub fn reset_after_panic() {
    if DEPTH.get() > 0 {
        DEPTH.set(0);
        LOCK.store(false, Ordering::Release);
    }
    set_release_hook(None);
}

pub fn install_silent_panic_hook() {
    std::panic::set_hook(Box::new(|info| {
        let msg = if let Some(s) = info.payload().downcast_ref::<&str>() {
            (*s).to_string()
        } else if let Some(s) = info.payload().downcast_ref::<String>() {
            s.clone()
        } else {
            "non-string panic payload".to_string()
        };
        let file = info.location().map(|l| l.file().to_string()).unwrap_or_default();
        LAST_PANIC.with(|p| *p.borrow_mut() = Some((file, msg)));
    }));
}

/// (file, message) of the last panic caught on this thread.
pub fn take_last_panic() -> (String, String) {
    LAST_PANIC.with(|p| p.borrow_mut().take()).unwrap_or_default()
}

/// `<ID>:panic:<file>:<message with digit runs replaced by N>`
pub fn panic_signature(file: &str, msg: &str) -> String {
    let mut m = String::new();
    let mut in_digits = false;
    for ch in msg.chars() {
        if ch.is_ascii_digit() {
            if !in_digits {
                m.push('N');
            }
            in_digits = true;
        } else {
            in_digits = false;
            m.push(ch);
        }
    }
    let short = file.rsplit("/dds/src/").next().unwrap_or(file);
    format!("C34:panic:{short}:{m}")
}
