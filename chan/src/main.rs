fn main() {
    eprintln!("engine chan: not built yet");
    std::process::exit(2);
}
