//! E-CHAN: property C34 — the worker channels of dust-dds (one-shot reply, multi-producer queue, notification)
//! never lose values or wake-ups and report disconnection exactly when the sending side is gone.
//!
//! The three channel sources are compiled *from /repo* (the `#[path]` modules below), against
//!   * the shims in this file for what they `use` from the dust_dds crate (`crate::infrastructure::error`, `alloc`),
//!   * the upstream `critical_section` library (vendored under a private package name, see `cs/Cargo.toml`) with the
//!     counting, preemptible implementation of `critical_section::Impl` in `csimpl.rs`.
//!
//! Tier 1 (`det.rs`): generated sequences of atomic channel operations, optionally with operations of *other*
//! actors injected at the critical-section boundaries inside an operation, judged by the reference model in
//! `model.rs`. Tier 2 (`threads.rs`): real threads.

extern crate alloc;

/// What the channel sources import from the dust_dds crate root.
pub mod infrastructure {
    pub mod error {
        //! Stand-in for `dust_dds::infrastructure::error` (variant list copied; the oracle only distinguishes
        //! `Ok` from `Err`, so the exact variant returned by a channel is not judged).
        use alloc::string::String;

        pub type DdsResult<T> = Result<T, DdsError>;

        #[allow(dead_code)]
        #[derive(Debug, PartialEq, Eq)]
        pub enum DdsError {
            Error(String),
            Unsupported,
            BadParameter,
            PreconditionNotMet(String),
            OutOfResources,
            NotEnabled,
            ImmutablePolicy,
            InconsistentPolicy,
            AlreadyDeleted,
            Timeout,
            NoData,
            IllegalOperation,
        }
    }
}

/// The subject under test, rebuilt from /repo's working tree on every `./check`.
#[allow(dead_code, unused_imports)]
pub mod channels {
    #[path = "/repo/dds/src/dcps/channels/mpsc.rs"]
    pub mod mpsc;
    #[path = "/repo/dds/src/dcps/channels/notification.rs"]
    pub mod notification;
    #[path = "/repo/dds/src/dcps/channels/oneshot.rs"]
    pub mod oneshot;
}

mod csimpl;
mod det;
mod model;
mod threads;

use serde_json::json;
use vcore::{Ctx, Known, Meta, Report};

pub const RULE: &str = "a generated operation sequence is non-trivial when, while the receiver is alive, (a) a poll \
returned Pending and a later operation of the sequence made the channel ready (send / notify / drop of the last \
sender) before the receive future was cancelled or dropped, or (b) the last sender handle was dropped; distinctness = \
hash of the executed (resolved) operation sequence including preemption placement";

pub const ASSUMPTIONS: &[&str] = &[
    "all shared channel state lives in critical_section::Mutex<RefCell<..>>, reachable only inside critical_section::with; \
     the only other shared datum is the Arc reference count (atomic). Hence a multi-thread execution is an interleaving of \
     critical sections; the harness implementation of critical_section counts the sections of every operation and can run \
     operations of other actors at every section boundary inside an operation (one level deep).",
    "nested critical sections never occur (checked at run time; a nested section makes the run inconclusive)",
    "a receive future is not polled again after it returned Ready (Future contract); mpsc receive() futures may be \
     dropped while pending (as select_future in the worker does)",
    "wakers used by the harness do not enter critical sections (wake() is called inside the channel's critical section)",
    "whether MpscSender::send reports Closed after the receiver was dropped is not judged (statement is silent)",
    "notification is a level-triggered flag: any number of notify() before the receiver completes yields one Ok",
];

fn main() {
    let ctx = Ctx::from_args();
    if ctx.id != "C34" {
        eprintln!("engine chan serves C34 only (got {})", ctx.id);
        std::process::exit(2);
    }
    csimpl::install_silent_panic_hook();
    let known = Known::load(&ctx.id);
    let mut report = Report::default();

    if let Some(path) = &ctx.replay {
        let case = vcore::load_replay(path);
        det::replay(&case, &mut report);
        vcore::finish(&ctx, Meta { rule: RULE, assumptions: ASSUMPTIONS, nontrivial_floor: 0 }, report);
    }

    det::run(&ctx, &known, &mut report);
    threads::run(&ctx, &known, &mut report);

    if csimpl::nested_sections_seen() > 0 {
        report.inconclusive.push(format!(
            "{} nested critical sections observed: the atomic-step model of the harness does not apply",
            csimpl::nested_sections_seen()
        ));
    }
    report.stats.extra.insert("nested_critical_sections".into(), json!(csimpl::nested_sections_seen()));
    let floor = ctx.pick(20_000, 200_000);
    vcore::finish(&ctx, Meta { rule: RULE, assumptions: ASSUMPTIONS, nontrivial_floor: floor }, report);
}
