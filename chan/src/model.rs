//! Reference model of a channel, transcribed from the statement of C34 (not from the channel sources):
//!   * a value that was sent is delivered exactly once, queue values in the order they were sent;
//!   * a poll finds the channel *ready* iff a sent value is undelivered or no sender handle is left; a ready channel
//!     yields the oldest undelivered value if there is one, otherwise "disconnected"; a channel that is not ready
//!     yields Pending;
//!   * if the receiver's last poll returned Pending (and its future still exists) and an operation makes the channel
//!     ready, the waker given to that poll has been invoked by the time the operation (and everything that ran
//!     concurrently with it) has returned.
//!
//! Operations that overlapped in time (an operation of another actor executed between two critical sections of an
//! operation) may take effect in either order: `Judge::step` accepts the observations if *some* order of the
//! overlapping operations is consistent with the model (linearizability over the candidate set).

use serde::{Deserialize, Serialize};
use std::collections::{BTreeSet, VecDeque};

#[derive(Clone, Copy, Debug, PartialEq, Eq, Hash, Serialize, Deserialize, PartialOrd, Ord)]
pub enum Kind {
    Oneshot,
    Mpsc,
    Notification,
}

impl Kind {
    pub fn name(&self) -> &'static str {
        match self {
            Kind::Oneshot => "oneshot",
            Kind::Mpsc => "mpsc",
            Kind::Notification => "notification",
        }
    }
}

#[derive(Clone, Copy, Debug, PartialEq, Eq, Hash)]
pub enum PollObs {
    Pending,
    /// Ready with a value (oneshot `Ok(v)`, mpsc `Some(v)`)
    Value(u32),
    /// Ready without payload (notification `Ok(())`)
    Unit,
    /// oneshot/notification `Err(_)`, mpsc `None`
    Disconnected,
}

/// One executed operation together with what the subject returned.
#[derive(Clone, Debug, PartialEq, Eq, Hash)]
pub enum Ev {
    /// oneshot `send(v)` (consumes the sender), mpsc `send(v)`, notification `notify()`.
    /// `refused`: mpsc returned `Err(Closed)`.
    Send { value: u32, refused: bool },
    Clone,
    DropSender,
    /// one `poll` of the receive future with waker number `waker`, whose wake counter read `baseline` just before
    Poll { waker: usize, baseline: usize, obs: PollObs },
    /// the pending receive future is dropped (mpsc only)
    Cancel,
    DropReceiver,
}

#[derive(Clone, Debug)]
pub struct Reject {
    pub sub: &'static str,
    pub shape: &'static str,
    pub what: String,
}

impl Reject {
    fn new(sub: &'static str, shape: &'static str, what: String) -> Reject {
        Reject { sub, shape, what }
    }
    pub fn signature(&self, kind: Kind) -> String {
        format!("C34:{}:{}:{}", kind.name(), self.sub, self.shape)
    }
}

#[derive(Clone, Debug, PartialEq, Eq)]
pub struct Model {
    pub kind: Kind,
    /// sent and not yet delivered (oneshot: at most one)
    pub queue: VecDeque<u32>,
    /// notification: a notify() happened and was not yet consumed
    pub flag: bool,
    pub delivered: BTreeSet<u32>,
    /// live sender handles
    pub senders: u32,
    pub recv_alive: bool,
    /// the receive future completed (oneshot / notification receivers are futures themselves)
    pub recv_done: bool,
    /// last poll returned Pending and its future still exists: (waker number, wake count before that poll)
    pub waiting: Option<(usize, usize)>,
}

impl Model {
    pub fn new(kind: Kind) -> Model {
        Model {
            kind,
            queue: VecDeque::new(),
            flag: false,
            delivered: BTreeSet::new(),
            senders: 1,
            recv_alive: true,
            recv_done: false,
            waiting: None,
        }
    }

    pub fn has_value(&self) -> bool {
        match self.kind {
            Kind::Notification => self.flag,
            _ => !self.queue.is_empty(),
        }
    }

    pub fn ready(&self) -> bool {
        self.has_value() || self.senders == 0
    }

    fn expected_poll(&self) -> PollObs {
        if self.has_value() {
            match self.kind {
                Kind::Notification => PollObs::Unit,
                _ => PollObs::Value(*self.queue.front().unwrap()),
            }
        } else if self.senders == 0 {
            PollObs::Disconnected
        } else {
            PollObs::Pending
        }
    }

    pub fn apply(&mut self, ev: &Ev) -> Result<(), Reject> {
        match ev {
            Ev::Send { value, refused } => {
                if *refused {
                    if self.recv_alive {
                        return Err(Reject::new(
                            "delivery",
                            "send-refused",
                            format!("send of value {value} was refused (Closed) although the receiver exists"),
                        ));
                    }
                    return Ok(());
                }
                match self.kind {
                    Kind::Notification => self.flag = true,
                    Kind::Mpsc => self.queue.push_back(*value),
                    Kind::Oneshot => {
                        self.queue.push_back(*value);
                        self.senders = 0; // send consumes the only sender
                    }
                }
                Ok(())
            }
            Ev::Clone => {
                self.senders += 1;
                Ok(())
            }
            Ev::DropSender => {
                self.senders -= 1;
                Ok(())
            }
            Ev::Cancel => {
                self.waiting = None;
                Ok(())
            }
            Ev::DropReceiver => {
                self.recv_alive = false;
                self.waiting = None;
                Ok(())
            }
            Ev::Poll { waker, baseline, obs } => {
                let exp = self.expected_poll();
                if exp != *obs {
                    return Err(self.explain_poll(exp, *obs));
                }
                match obs {
                    PollObs::Pending => self.waiting = Some((*waker, *baseline)),
                    PollObs::Value(v) => {
                        self.queue.pop_front();
                        self.delivered.insert(*v);
                        self.waiting = None;
                        if self.kind == Kind::Oneshot {
                            self.recv_done = true;
                        }
                    }
                    PollObs::Unit => {
                        self.flag = false;
                        self.waiting = None;
                        self.recv_done = true;
                    }
                    PollObs::Disconnected => {
                        self.waiting = None;
                        if self.kind != Kind::Mpsc {
                            self.recv_done = true;
                        }
                    }
                }
                Ok(())
            }
        }
    }

    fn explain_poll(&self, exp: PollObs, obs: PollObs) -> Reject {
        let state = format!(
            "(model: undelivered={:?}{} live_senders={})",
            self.queue,
            if self.kind == Kind::Notification { format!(" notified={}", self.flag) } else { String::new() },
            self.senders
        );
        match (exp, obs) {
            (PollObs::Value(_) | PollObs::Unit, PollObs::Pending) => Reject::new(
                "delivery",
                "lost",
                format!("poll returned Pending although a sent value/notification is undelivered {state}"),
            ),
            (PollObs::Value(_) | PollObs::Unit, PollObs::Disconnected) => Reject::new(
                "disconnect",
                "spurious",
                format!("poll reported disconnection although a sent value/notification is undelivered {state}"),
            ),
            (PollObs::Pending, PollObs::Disconnected) => Reject::new(
                "disconnect",
                "spurious",
                format!("poll reported disconnection although a sender handle is still alive {state}"),
            ),
            (PollObs::Disconnected, PollObs::Pending) => Reject::new(
                "disconnect",
                "missed",
                format!(
                    "poll returned Pending although every sender handle has been dropped and nothing is \
                     undelivered: the receiver can never complete {state}"
                ),
            ),
            (_, PollObs::Value(w)) => {
                if self.queue.contains(&w) {
                    Reject::new(
                        "delivery",
                        "order",
                        format!("poll delivered value {w} out of order, expected {exp:?} {state}"),
                    )
                } else if self.delivered.contains(&w) {
                    Reject::new("delivery", "duplicate", format!("poll delivered value {w} a second time {state}"))
                } else {
                    Reject::new("delivery", "phantom", format!("poll delivered value {w} that was never sent {state}"))
                }
            }
            (_, PollObs::Unit) => Reject::new(
                "delivery",
                "phantom",
                format!("poll completed with a notification although none is outstanding {state}"),
            ),
            (e, o) => Reject::new("delivery", "other", format!("poll returned {o:?}, expected {e:?} {state}")),
        }
    }

    /// Wake-up obligation at a quiescent point (no operation in progress).
    fn check_wake(&self, wakes: &dyn Fn(usize) -> usize) -> Result<(), Reject> {
        if let Some((waker, baseline)) = self.waiting {
            if self.recv_alive && self.ready() && wakes(waker) <= baseline {
                return Err(if self.has_value() {
                    Reject::new(
                        "wake",
                        "missed",
                        format!(
                            "the receiver's last poll returned Pending (waker #{waker}); a value/notification was sent \
                             afterwards but that waker was never invoked: the receiver sleeps forever"
                        ),
                    )
                } else {
                    Reject::new(
                        "disconnect",
                        "missed",
                        format!(
                            "the receiver's last poll returned Pending (waker #{waker}); afterwards the last sender \
                             handle was dropped without sending, but that waker was never invoked: the receiver is \
                             never told about the disconnection and sleeps forever"
                        ),
                    )
                });
            }
        }
        Ok(())
    }
}

#[derive(Default, Clone, Copy, Debug)]
pub struct StepInfo {
    pub linearizations_tried: u32,
    pub linearizations_accepted: u32,
}

pub struct Judge {
    pub cands: Vec<Model>,
}

impl Judge {
    pub fn new(kind: Kind) -> Judge {
        Judge { cands: vec![Model::new(kind)] }
    }

    pub fn main(&self) -> &Model {
        &self.cands[0]
    }

    /// One top-level operation `outer` during which `nested` ran (in that order) at critical-section boundaries.
    /// `wakes(i)` = current invocation count of waker number i (read after the whole step returned).
    pub fn step(&mut self, outer: &Ev, nested: &[Ev], wakes: &dyn Fn(usize) -> usize) -> Result<StepInfo, Reject> {
        if nested.is_empty() && self.cands.len() == 1 {
            // common case: a plain sequential step, judged in place
            let m = &mut self.cands[0];
            m.apply(outer)?;
            m.check_wake(wakes)?;
            return Ok(StepInfo { linearizations_tried: 1, linearizations_accepted: 1 });
        }
        let mut next: Vec<Model> = Vec::with_capacity(self.cands.len());
        // explanation reported when no order is consistent: the one of the order that got furthest
        let mut best_reject: Option<(usize, Reject)> = None;
        let mut info = StepInfo::default();
        for c in self.cands.iter() {
            for p in 0..=nested.len() {
                info.linearizations_tried += 1;
                let mut m = c.clone();
                let mut progress = 0usize;
                let r = (|| {
                    for ev in nested[..p].iter().chain(std::iter::once(outer)).chain(nested[p..].iter()) {
                        m.apply(ev)?;
                        progress += 1;
                    }
                    m.check_wake(wakes)
                })();
                match r {
                    Ok(()) => {
                        info.linearizations_accepted += 1;
                        if !next.contains(&m) {
                            next.push(m);
                        }
                    }
                    Err(e) => {
                        if best_reject.as_ref().map(|(bp, _)| progress > *bp).unwrap_or(true) {
                            best_reject = Some((progress, e));
                        }
                    }
                }
            }
        }
        if next.is_empty() {
            return Err(best_reject.expect("no candidate and no reject").1);
        }
        self.cands = next;
        Ok(info)
    }
}
