//! Tier 2: real threads. 1–4 sender threads execute generated plans (send / clone / drop / yield / spin) on their own
//! handles while the main thread receives with a minimal park-based `block_on`. It validates end to end what tier 1
//! assumes (critical sections really exclude each other, nothing is shared outside them).
//!
//! No timing enters the oracle. "The receiver was not woken" is decided as follows: the receiver's last poll
//! returned Pending, *every* sender thread has finished and dropped all its handles (observed through an
//! acquire/release counter), and the waker handed to that last poll has still not been invoked. At that point the
//! channel is necessarily ready (all senders are gone), so a wake-up was due and can no longer come.
//!
//! Thread runs are not reproducible, so an anomaly found here is reported as a VIOLATION only when tier 1 found the
//! same signature (then tier 1's replay file is the witness); a listed known finding is counted as such; anything
//! else makes the run inconclusive (exit 2) with the full record in the evidence file.

use std::{
    collections::{BTreeMap, hash_map::DefaultHasher},
    future::Future,
    hash::{Hash, Hasher},
    panic::{AssertUnwindSafe, catch_unwind},
    pin::Pin,
    sync::{
        Arc, Barrier,
        atomic::{AtomicBool, AtomicUsize, Ordering},
    },
    task::{Context, Poll, Wake, Waker},
    thread::{self, Thread},
    time::{Duration, Instant},
};

use proptest::prelude::*;
use serde::{Deserialize, Serialize};
use serde_json::json;
use vcore::{Ctx, Known, Report};

use crate::{
    channels::{
        mpsc::{MpscSender, mpsc_channel},
        notification::{NotificationSender, notification},
        oneshot::{OneshotSender, oneshot},
    },
    csimpl,
    det::Val,
    model::Kind,
};

#[derive(Clone, Debug, Hash, Serialize, Deserialize)]
pub enum TStep {
    Send,
    Clone,
    DropOne,
    Yield,
    Spin(u8),
}

#[derive(Clone, Debug, Hash, Serialize, Deserialize)]
pub struct TCase {
    pub kind: Kind,
    /// one plan per sender thread; every thread starts with one handle and drops what it still holds at the end
    pub threads: Vec<Vec<TStep>>,
    /// new waker object for every poll (otherwise one waker for the whole run)
    pub fresh_wakers: bool,
    /// busy iterations of the receiver before its first poll
    pub recv_delay: u8,
}

fn step_strategy(kind: Kind) -> BoxedStrategy<TStep> {
    match kind {
        Kind::Oneshot => prop_oneof![
            2 => Just(TStep::Send),
            1 => Just(TStep::DropOne),
            3 => Just(TStep::Yield),
            2 => any::<u8>().prop_map(TStep::Spin)
        ]
        .boxed(),
        Kind::Mpsc => prop_oneof![
            10 => Just(TStep::Send),
            2 => Just(TStep::Clone),
            2 => Just(TStep::DropOne),
            4 => Just(TStep::Yield),
            2 => any::<u8>().prop_map(TStep::Spin)
        ]
        .boxed(),
        Kind::Notification => prop_oneof![
            2 => Just(TStep::Send),
            4 => Just(TStep::Clone),
            4 => Just(TStep::DropOne),
            4 => Just(TStep::Yield),
            2 => any::<u8>().prop_map(TStep::Spin)
        ]
        .boxed(),
    }
}

pub fn tcase_strategy(kind: Kind) -> impl Strategy<Value = TCase> {
    let nthreads = if kind == Kind::Oneshot { 1usize..=1 } else { 1usize..=4 };
    let len = if kind == Kind::Mpsc { 0usize..=40 } else { 0usize..=10 };
    (prop::collection::vec(prop::collection::vec(step_strategy(kind), len), nthreads), any::<bool>(), any::<u8>())
        .prop_map(move |(threads, fresh_wakers, recv_delay)| TCase { kind, threads, fresh_wakers, recv_delay })
}

struct ThreadWaker {
    thread: Thread,
    woken: AtomicBool,
}

impl Wake for ThreadWaker {
    fn wake(self: Arc<Self>) {
        self.wake_by_ref()
    }
    fn wake_by_ref(self: &Arc<Self>) {
        self.woken.store(true, Ordering::SeqCst);
        self.thread.unpark();
    }
}

enum SenderH {
    One(OneshotSender<Val>),
    Mp(MpscSender<Val>),
    No(NotificationSender),
}

fn spin(n: u8) {
    for _ in 0..(n as u32) * 8 {
        std::hint::spin_loop();
    }
}

/// Runs the plan of one sender thread; returns the number of values it sent (all accepted sends).
fn sender_body(idx: u32, first: SenderH, plan: &[TStep]) -> Result<u32, String> {
    // leaked rather than dropped if the subject panics (a second panic while unwinding would abort the process)
    let mut handles = std::mem::ManuallyDrop::new(vec![first]);
    let mut seq = 0u32;
    for s in plan {
        match s {
            TStep::Yield => thread::yield_now(),
            TStep::Spin(n) => spin(*n),
            TStep::Clone => {
                if handles.len() < 4 {
                    let c = match handles.last() {
                        Some(SenderH::Mp(s)) => Some(SenderH::Mp(s.clone())),
                        Some(SenderH::No(s)) => Some(SenderH::No(s.clone())),
                        _ => None,
                    };
                    if let Some(c) = c {
                        handles.push(c);
                    }
                }
            }
            TStep::DropOne => {
                if !handles.is_empty() {
                    drop(handles.remove(0));
                }
            }
            TStep::Send => match handles.pop() {
                None => {}
                Some(SenderH::One(s)) => {
                    seq += 1;
                    s.send(Val(idx << 16 | seq));
                }
                Some(SenderH::Mp(s)) => {
                    seq += 1;
                    if s.send(Val(idx << 16 | seq)).is_err() {
                        return Err(format!("sender thread {idx}: send #{seq} refused (Closed) while the receiver exists"));
                    }
                    handles.push(SenderH::Mp(s));
                }
                Some(SenderH::No(s)) => {
                    seq += 1;
                    s.notify();
                    handles.push(SenderH::No(s));
                }
            },
        }
    }
    while let Some(h) = handles.pop() {
        drop(h);
    }
    Ok(seq)
}

#[derive(Debug, Clone, PartialEq)]
enum Got {
    Value(u32),
    Unit,
    Disconnected,
}

enum Wait {
    Woken,
    /// all sender threads are finished and the current waker was never invoked
    NeverWoken,
    Watchdog,
}

struct RecvCtx {
    me: Thread,
    fresh: bool,
    cur: Arc<ThreadWaker>,
    remaining: Arc<AtomicUsize>,
    deadline: Instant,
    wakes_seen: u32,
}

impl RecvCtx {
    fn waker(&mut self) -> Waker {
        if self.fresh {
            self.cur = Arc::new(ThreadWaker { thread: self.me.clone(), woken: AtomicBool::new(false) });
        } else {
            self.cur.woken.store(false, Ordering::SeqCst);
        }
        Waker::from(self.cur.clone())
    }

    fn wait(&mut self) -> Wait {
        loop {
            if self.cur.woken.load(Ordering::SeqCst) {
                self.wakes_seen += 1;
                return Wait::Woken;
            }
            if self.remaining.load(Ordering::SeqCst) == 0 {
                // everything the senders did happens-before this load
                if self.cur.woken.load(Ordering::SeqCst) {
                    self.wakes_seen += 1;
                    return Wait::Woken;
                }
                return Wait::NeverWoken;
            }
            if Instant::now() > self.deadline {
                return Wait::Watchdog;
            }
            thread::park_timeout(Duration::from_micros(200));
        }
    }
}

pub struct Outcome {
    /// `(signature, explanation)` of an anomaly
    pub anomaly: Option<(String, String)>,
    pub watchdog: bool,
    pub wakes_seen: u32,
}

pub fn run_tcase(case: &TCase) -> Outcome {
    let kind = case.kind;
    let n = case.threads.len();
    let remaining = Arc::new(AtomicUsize::new(n));
    let barrier = Arc::new(Barrier::new(n + 1));

    // the channel and one handle per sender thread
    enum Rx {
        One(crate::channels::oneshot::OneshotReceiver<Val>),
        Mp(crate::channels::mpsc::MpscReceiver<Val>),
        No(crate::channels::notification::NotificationReceiver),
    }
    let (firsts, rx): (Vec<SenderH>, Rx) = match kind {
        Kind::Oneshot => {
            let (s, r) = oneshot::<Val>();
            (vec![SenderH::One(s)], Rx::One(r))
        }
        Kind::Mpsc => {
            let (s, r) = mpsc_channel::<Val>();
            let mut v: Vec<SenderH> = (1..n).map(|_| SenderH::Mp(s.clone())).collect();
            v.push(SenderH::Mp(s));
            (v, Rx::Mp(r))
        }
        Kind::Notification => {
            let (s, r) = notification();
            let mut v: Vec<SenderH> = (1..n).map(|_| SenderH::No(s.clone())).collect();
            v.push(SenderH::No(s));
            (v, Rx::No(r))
        }
    };

    let mut joins = vec![];
    for (i, first) in firsts.into_iter().enumerate() {
        let plan = case.threads[i].clone();
        let remaining = remaining.clone();
        let barrier = barrier.clone();
        joins.push(thread::spawn(move || {
            barrier.wait();
            let r = catch_unwind(AssertUnwindSafe(|| sender_body(i as u32 + 1, first, &plan)));
            let r = match r {
                Ok(r) => r,
                Err(_) => {
                    csimpl::reset_after_panic();
                    let (f, m) = csimpl::take_last_panic();
                    Err(format!("PANIC {f}: {m}"))
                }
            };
            remaining.fetch_sub(1, Ordering::SeqCst);
            r
        }));
    }

    let me = thread::current();
    let mut rc = RecvCtx {
        me: me.clone(),
        fresh: case.fresh_wakers,
        cur: Arc::new(ThreadWaker { thread: me, woken: AtomicBool::new(false) }),
        remaining: remaining.clone(),
        deadline: Instant::now() + Duration::from_secs(20),
        wakes_seen: 0,
    };
    barrier.wait();
    spin(case.recv_delay);

    // receive until the channel reports the end
    let mut got: Vec<Got> = vec![];
    let mut end: Option<Wait> = None; // Some(NeverWoken|Watchdog) when the receiver gave up
    let mut diag: Option<Poll<Got>> = None;
    let recv_result = catch_unwind(AssertUnwindSafe(|| {
        let mut rx = rx;
        'outer: loop {
            // one future per received item
            let mut fut: Pin<Box<dyn Future<Output = Got> + '_>> = match &mut rx {
                Rx::One(r) => Box::pin(async move {
                    match r.await {
                        Ok(v) => Got::Value(v.0),
                        Err(_) => Got::Disconnected,
                    }
                }),
                Rx::No(r) => Box::pin(async move {
                    match r.await {
                        Ok(()) => Got::Unit,
                        Err(_) => Got::Disconnected,
                    }
                }),
                Rx::Mp(r) => {
                    let r: &crate::channels::mpsc::MpscReceiver<Val> = r;
                    Box::pin(async move {
                        match r.receive().await {
                            Some(v) => Got::Value(v.0),
                            None => Got::Disconnected,
                        }
                    })
                }
            };
            loop {
                let w = rc.waker();
                let mut cx = Context::from_waker(&w);
                match fut.as_mut().poll(&mut cx) {
                    Poll::Ready(g) => {
                        let last = g == Got::Disconnected || kind != Kind::Mpsc;
                        got.push(g);
                        if last {
                            break 'outer;
                        }
                        break;
                    }
                    Poll::Pending => match rc.wait() {
                        Wait::Woken => {}
                        other => {
                            // diagnostic poll: what would the receiver have found had it been woken?
                            let w = rc.waker();
                            let mut cx = Context::from_waker(&w);
                            diag = Some(fut.as_mut().poll(&mut cx));
                            end = Some(other);
                            break 'outer;
                        }
                    },
                }
            }
        }
    }));

    let mut sent: Vec<u32> = vec![];
    let mut sender_errors: Vec<String> = vec![];
    for j in joins {
        match j.join() {
            Ok(Ok(n)) => sent.push(n),
            Ok(Err(e)) => {
                sent.push(0);
                sender_errors.push(e)
            }
            Err(_) => {
                sent.push(0);
                sender_errors.push("sender thread died".into())
            }
        }
    }

    let mut out = Outcome { anomaly: None, watchdog: false, wakes_seen: rc.wakes_seen };
    let k = kind.name();
    let mut first_anomaly: Option<(String, String)> = None;
    let mut anomaly = |sig: String, what: String| {
        if first_anomaly.is_none() {
            first_anomaly = Some((sig, what));
        }
    };
    if recv_result.is_err() {
        csimpl::reset_after_panic();
        let (f, m) = csimpl::take_last_panic();
        anomaly(csimpl::panic_signature(&f, &m), format!("receiver panicked at {f}: {m}"));
    }
    for e in &sender_errors {
        if let Some(rest) = e.strip_prefix("PANIC ") {
            let (f, m) = rest.split_once(": ").unwrap_or((rest, ""));
            anomaly(csimpl::panic_signature(f, m), format!("sender thread panicked at {f}: {m}"));
        } else {
            anomaly(format!("C34:{k}:delivery:send-refused"), e.clone());
        }
    }

    // delivery oracle over what was received
    let values: Vec<u32> = got.iter().filter_map(|g| if let Got::Value(v) = g { Some(*v) } else { None }).collect();
    let total_sent: u32 = sent.iter().sum();
    let mut next_expected: BTreeMap<u32, u32> = BTreeMap::new();
    for v in &values {
        let (t, s) = (v >> 16, v & 0xffff);
        let e = next_expected.entry(t).or_insert(1);
        if t == 0 || t as usize > n || s > sent[t as usize - 1] {
            anomaly(format!("C34:{k}:delivery:phantom"), format!("received value {v:#x} that no thread sent"));
        } else if s < *e {
            anomaly(format!("C34:{k}:delivery:duplicate"), format!("value #{s} of sender thread {t} received again or after a later one"));
        } else if s > *e {
            anomaly(
                format!("C34:{k}:delivery:order"),
                format!("value #{s} of sender thread {t} received while #{} of the same thread was not yet received", *e),
            );
            *e = s + 1;
        } else {
            *e = s + 1;
        }
    }

    out.watchdog = matches!(end, Some(Wait::Watchdog));
    match end {
        Some(Wait::Watchdog) => {}
        Some(Wait::NeverWoken) => {
            // all senders are gone; the last registered waker was never invoked
            let (sig, what) = match diag {
                Some(Poll::Ready(Got::Value(_))) | Some(Poll::Ready(Got::Unit)) => (
                    format!("C34:{k}:wake:missed"),
                    "receiver polled Pending, a value/notification was sent afterwards, all senders finished, but the \
                     receiver's waker was never invoked (a diagnostic poll finds the value)"
                        .to_string(),
                ),
                Some(Poll::Ready(Got::Disconnected)) => (
                    format!("C34:{k}:disconnect:missed"),
                    "receiver polled Pending, then every sender handle was dropped, but the receiver's waker was never \
                     invoked (a diagnostic poll reports the disconnection)"
                        .to_string(),
                ),
                _ => {
                    if values.len() as u32 == total_sent || kind == Kind::Notification {
                        (
                            format!("C34:{k}:disconnect:missed"),
                            format!(
                                "all {total_sent} sent values were received and every sender handle has been dropped, \
                                 yet the receiver is neither woken nor told about the disconnection (poll stays Pending)"
                            ),
                        )
                    } else {
                        (
                            format!("C34:{k}:delivery:lost"),
                            format!("{} of {total_sent} sent values received, all senders gone, poll stays Pending", values.len()),
                        )
                    }
                }
            };
            anomaly(sig, what);
        }
        Some(Wait::Woken) => unreachable!(),
        None => {
            // the receive loop ended by itself: judge the end state (every sender thread has been joined by now,
            // but the verdict below only uses facts that held when the receiver finished)
            match (kind, got.last()) {
                (Kind::Oneshot, Some(Got::Value(_))) => {
                    if total_sent != 1 {
                        anomaly(format!("C34:{k}:delivery:phantom"), "received a value although the sender never sent".into());
                    }
                }
                (Kind::Oneshot, Some(Got::Disconnected)) => {
                    if total_sent != 0 {
                        anomaly(format!("C34:{k}:disconnect:spurious"), "disconnection reported although the sender sent a value".into());
                    }
                }
                (Kind::Notification, Some(Got::Unit)) => {
                    if total_sent == 0 {
                        anomaly(format!("C34:{k}:delivery:phantom"), "notification received although no thread notifies".into());
                    }
                }
                (Kind::Notification, Some(Got::Disconnected)) => {
                    if total_sent != 0 {
                        anomaly(
                            format!("C34:{k}:disconnect:spurious"),
                            "disconnection reported although a notification was sent and never consumed".into(),
                        );
                    }
                }
                (Kind::Mpsc, Some(Got::Disconnected)) => {
                    if values.len() as u32 != total_sent {
                        anomaly(
                            format!("C34:{k}:disconnect:spurious"),
                            format!("disconnection reported after {} of {total_sent} sent values", values.len()),
                        );
                    }
                }
                _ => {
                    if recv_result.is_ok() {
                        anomaly(format!("C34:{k}:delivery:other"), format!("receive loop ended with {:?}", got.last()));
                    }
                }
            }
        }
    }
    out.anomaly = first_anomaly;
    out
}

pub fn run(ctx: &Ctx, known: &Known, report: &mut Report) {
    let per_kind: u32 = ctx.pick(60, 2_000);
    let mut anomalies: BTreeMap<String, (u64, String, serde_json::Value)> = BTreeMap::new();
    let mut runs = 0u64;
    let mut woken_runs = 0u64;
    'kinds: for kind in [Kind::Oneshot, Kind::Notification, Kind::Mpsc] {
        let mut runner = vcore::pt::runner(per_kind, ctx.rng_seed(&format!("threads/{}", kind.name())), 0);
        let strat = tcase_strategy(kind);
        for _ in 0..per_kind {
            let case = vcore::pt::draw(&mut runner, &strat);
            let out = run_tcase(&case);
            runs += 1;
            let mut h = DefaultHasher::new();
            case.hash(&mut h);
            // scheduling-dependent facts stay out of the deterministic statistics (evaluations / distinct_nontrivial)
            if out.wakes_seen > 0 {
                woken_runs += 1;
            }
            report.stats.case(h.finish(), false, &[format!("threads:{}", kind.name())]);
            if out.watchdog {
                report.inconclusive.push(format!(
                    "thread tier: watchdog (20 s) hit in a {} run; case {}",
                    kind.name(),
                    serde_json::to_string(&case).unwrap()
                ));
                break 'kinds;
            }
            if let Some((sig, what)) = out.anomaly {
                let e = anomalies.entry(sig).or_insert((0, what, json!({"threads": case})));
                e.0 += 1;
            }
        }
    }
    let mut listed = vec![];
    for (sig, (count, what, case)) in anomalies {
        if known.matches(&sig) {
            *report.stats.excluded_known.entry(sig.clone()).or_insert(0) += count;
            listed.push(json!({"signature": sig, "runs": count, "classified": "known finding"}));
        } else if report.failures.iter().any(|f| f.signature == sig) {
            listed.push(json!({"signature": sig, "runs": count, "what": what,
                "classified": "same signature as the deterministic-tier violation of this run (its replay file is the witness)"}));
        } else {
            listed.push(json!({"signature": sig, "runs": count, "what": what, "example": case,
                "classified": "not reproduced by the deterministic tier: inconclusive"}));
            report.inconclusive.push(format!(
                "thread tier observed [{sig}] in {count} runs but the deterministic tier did not reproduce it: {what}"
            ));
        }
    }
    report.stats.extra.insert(
        "thread_tier".into(),
        json!({"runs": runs, "runs_where_receiver_parked_and_was_woken (scheduling dependent)": woken_runs, "anomalies": listed}),
    );
}
