#![cfg_attr(not(feature = "std"), no_std)]
#![doc = include_str!("../README.md")]

mod mutex;
#[cfg(feature = "std")]
mod std;

use core::marker::PhantomData;

pub use self::mutex::Mutex;

/// Critical section token.
///
/// An instance of this type indicates that the current thread is executing code within a critical
/// section.
#[derive(Clone, Copy, Debug)]
pub struct CriticalSection<'cs> {
    _private: PhantomData<&'cs ()>,

    // Prevent CriticalSection from being Send or Sync
    // https://github.com/rust-embedded/critical-section/issues/55
    _not_send_sync: PhantomData<*mut ()>,
}

impl<'cs> CriticalSection<'cs> {
    /// Creates a critical section token.
    ///
    /// This method is meant to be used to create safe abstractions rather than being directly used
    /// in applications.
    ///
    /// # Safety
    ///
    /// This must only be called when the current thread is in a critical section. The caller must
    /// ensure that the returned instance will not live beyond the end of the critical section.
    ///
    /// The caller must use adequate fences to prevent the compiler from moving the
    /// instructions inside the critical section to the outside of it. Sequentially consistent fences are
    /// suggested immediately after entry and immediately before exit from the critical section.
    ///
    /// Note that the lifetime `'cs` of the returned instance is unconstrained. User code must not
    /// be able to influence the lifetime picked for this type, since that might cause it to be
    /// inferred to `'static`.
    #[inline(always)]
    pub unsafe fn new() -> Self {
        CriticalSection {
            _private: PhantomData,
            _not_send_sync: PhantomData,
        }
    }
}

#[cfg(any(
    all(feature = "restore-state-none", feature = "restore-state-bool"),
    all(feature = "restore-state-none", feature = "restore-state-u8"),
    all(feature = "restore-state-none", feature = "restore-state-u16"),
    all(feature = "restore-state-none", feature = "restore-state-u32"),
    all(feature = "restore-state-none", feature = "restore-state-u64"),
    all(feature = "restore-state-bool", feature = "restore-state-u8"),
    all(feature = "restore-state-bool", feature = "restore-state-u16"),
    all(feature = "restore-state-bool", feature = "restore-state-u32"),
    all(feature = "restore-state-bool", feature = "restore-state-u64"),
    all(feature = "restore-state-bool", feature = "restore-state-usize"),
    all(feature = "restore-state-u8", feature = "restore-state-u16"),
    all(feature = "restore-state-u8", feature = "restore-state-u32"),
    all(feature = "restore-state-u8", feature = "restore-state-u64"),
    all(feature = "restore-state-u8", feature = "restore-state-usize"),
    all(feature = "restore-state-u16", feature = "restore-state-u32"),
    all(feature = "restore-state-u16", feature = "restore-state-u64"),
    all(feature = "restore-state-u16", feature = "restore-state-usize"),
    all(feature = "restore-state-u32", feature = "restore-state-u64"),
    all(feature = "restore-state-u32", feature = "restore-state-usize"),
    all(feature = "restore-state-u64", feature = "restore-state-usize"),
))]
compile_error!("You must set at most one of these Cargo features: restore-state-none, restore-state-bool, restore-state-u8, restore-state-u16, restore-state-u32, restore-state-u64, restore-state-usize");

#[cfg(not(any(
    feature = "restore-state-bool",
    feature = "restore-state-u8",
    feature = "restore-state-u16",
    feature = "restore-state-u32",
    feature = "restore-state-u64",
    feature = "restore-state-usize"
)))]
type RawRestoreStateInner = ();

#[cfg(feature = "restore-state-bool")]
type RawRestoreStateInner = bool;

#[cfg(feature = "restore-state-u8")]
type RawRestoreStateInner = u8;

#[cfg(feature = "restore-state-u16")]
type RawRestoreStateInner = u16;

#[cfg(feature = "restore-state-u32")]
type RawRestoreStateInner = u32;

#[cfg(feature = "restore-state-u64")]
type RawRestoreStateInner = u64;

#[cfg(feature = "restore-state-usize")]
type RawRestoreStateInner = usize;

// We have RawRestoreStateInner and RawRestoreState so that we don't have to copypaste the docs 5 times.
// In the docs this shows as `pub type RawRestoreState = u8` or whatever the selected type is, because
// the "inner" type alias is private.

/// Raw, transparent "restore state".
///
/// This type changes based on which Cargo feature is selected, out of
/// - `restore-state-none` (default, makes the type be `()`)
/// - `restore-state-bool`
/// - `restore-state-u8`
/// - `restore-state-u16`
/// - `restore-state-u32`
/// - `restore-state-u64`
/// - `restore-state-usize`
///
/// See [`RestoreState`].
///
/// User code uses [`RestoreState`] opaquely, critical section implementations
/// use [`RawRestoreState`] so that they can use the inner value.
pub type RawRestoreState = RawRestoreStateInner;

/// Opaque "restore state".
///
/// Implementations use this to "carry over" information between acquiring and releasing
/// a critical section. For example, when nesting two critical sections of an
/// implementation that disables interrupts globally, acquiring the inner one won't disable
/// the interrupts since they're already disabled. The impl would use the restore state to "tell"
/// the corresponding release that it does *not* have to reenable interrupts yet, only the
/// outer release should do so.
///
/// User code uses [`RestoreState`] opaquely, critical section implementations
/// use [`RawRestoreState`] so that they can use the inner value.
#[derive(Clone, Copy, Debug)]
pub struct RestoreState(RawRestoreState);

impl RestoreState {
    /// Create an invalid, dummy  `RestoreState`.
    ///
    /// This can be useful to avoid `Option` when storing a `RestoreState` in a
    /// struct field, or a `static`.
    ///
    /// Note that due to the safety contract of [`acquire`]/[`release`], you must not pass
    /// a `RestoreState` obtained from this method to [`release`].
    pub const fn invalid() -> Self {
        #[cfg(not(any(
            feature = "restore-state-bool",
            feature = "restore-state-u8",
            feature = "restore-state-u16",
            feature = "restore-state-u32",
            feature = "restore-state-u64",
            feature = "restore-state-usize"
        )))]
        return Self(());

        #[cfg(feature = "restore-state-bool")]
        return Self(false);

        #[cfg(feature = "restore-state-u8")]
        return Self(0);

        #[cfg(feature = "restore-state-u16")]
        return Self(0);

        #[cfg(feature = "restore-state-u32")]
        return Self(0);

        #[cfg(feature = "restore-state-u64")]
        return Self(0);

        #[cfg(feature = "restore-state-usize")]
        return Self(0);
    }
}

/// Acquire a critical section in the current thread.
///
/// This function is extremely low level. Strongly prefer using [`with`] instead.
///
/// Nesting critical sections is allowed. The inner critical sections
/// are mostly no-ops since they're already protected by the outer one.
///
/// # Safety
///
/// - Each `acquire` call must be paired with exactly one `release` call in the same thread.
/// - `acquire` returns a "restore state" that you must pass to the corresponding `release` call.
/// - `acquire`/`release` pairs must be "properly nested", ie it's not OK to do `a=acquire(); b=acquire(); release(a); release(b);`.
/// - It is UB to call `release` if the critical section is not acquired in the current thread.
/// - It is UB to call `release` with a "restore state" that does not come from the corresponding `acquire` call.
/// - It must provide ordering guarantees at least equivalent to a [`core::sync::atomic::Ordering::Acquire`]
///   on a memory location shared by all critical sections, on which the `release` call will do a
///   [`core::sync::atomic::Ordering::Release`] operation.
#[inline(always)]
pub unsafe fn acquire() -> RestoreState {
    extern "Rust" {
        fn _critical_section_1_0_acquire() -> RawRestoreState;
    }

    #[allow(clippy::unit_arg)]
    RestoreState(_critical_section_1_0_acquire())
}

/// Release the critical section.
///
/// This function is extremely low level. Strongly prefer using [`with`] instead.
///
/// # Safety
///
/// See [`acquire`] for the safety contract description.
#[inline(always)]
pub unsafe fn release(restore_state: RestoreState) {
    extern "Rust" {
        fn _critical_section_1_0_release(restore_state: RawRestoreState);
    }

    #[allow(clippy::unit_arg)]
    _critical_section_1_0_release(restore_state.0)
}

/// Execute closure `f` in a critical section.
///
/// Nesting critical sections is allowed. The inner critical sections
/// are mostly no-ops since they're already protected by the outer one.
///
/// # Panics
///
/// This function panics if the given closure `f` panics. In this case
/// the critical section is released before unwinding.
#[inline]
pub fn with<R>(f: impl FnOnce(CriticalSection) -> R) -> R {
    // Helper for making sure `release` is called even if `f` panics.
    struct Guard {
        state: RestoreState,
    }

    impl Drop for Guard {
        #[inline(always)]
        fn drop(&mut self) {
            unsafe { release(self.state) }
        }
    }

    let state = unsafe { acquire() };
    let _guard = Guard { state };

    unsafe { f(CriticalSection::new()) }
}

/// Methods required for a critical section implementation.
///
/// This trait is not intended to be used except when implementing a critical section.
///
/// # Safety
///
/// Implementations must uphold the contract specified in [`crate::acquire`] and [`crate::release`].
pub unsafe trait Impl {
    /// Acquire the critical section.
    ///
    /// # Safety
    ///
    /// Callers must uphold the contract specified in [`crate::acquire`] and [`crate::release`].
    unsafe fn acquire() -> RawRestoreState;

    /// Release the critical section.
    ///
    /// # Safety
    ///
    /// Callers must uphold the contract specified in [`crate::acquire`] and [`crate::release`].
    unsafe fn release(restore_state: RawRestoreState);
}

/// Set the critical section implementation.
///
/// # Example
///
/// ```
/// # #[cfg(not(feature = "std"))] // needed for `cargo test --features std`
/// # mod no_std {
/// use critical_section::RawRestoreState;
///
/// struct MyCriticalSection;
/// critical_section::set_impl!(MyCriticalSection);
///
/// unsafe impl critical_section::Impl for MyCriticalSection {
///     unsafe fn acquire() -> RawRestoreState {
///         // ...
///     }
///
///     unsafe fn release(restore_state: RawRestoreState) {
///         // ...
///     }
/// }
/// # }
#[macro_export]
macro_rules! set_impl {
    ($t: ty) => {
        #[no_mangle]
        unsafe fn _critical_section_1_0_acquire() -> $crate::RawRestoreState {
            <$t as $crate::Impl>::acquire()
        }
        #[no_mangle]
        unsafe fn _critical_section_1_0_release(restore_state: $crate::RawRestoreState) {
            <$t as $crate::Impl>::release(restore_state)
        }
    };
}
