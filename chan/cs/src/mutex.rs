use super::CriticalSection;
use core::cell::{Ref, RefCell, RefMut, UnsafeCell};

/// A mutex based on critical sections.
///
/// # Example
///
/// ```no_run
/// # use critical_section::Mutex;
/// # use std::cell::Cell;
///
/// static FOO: Mutex<Cell<i32>> = Mutex::new(Cell::new(42));
///
/// fn main() {
///     critical_section::with(|cs| {
///         FOO.borrow(cs).set(43);
///     });
/// }
///
/// fn interrupt_handler() {
///     let _x = critical_section::with(|cs| FOO.borrow(cs).get());
/// }
/// ```
///
///
/// # Design
///
/// [`std::sync::Mutex`] has two purposes. It converts types that are [`Send`]
/// but not [`Sync`] into types that are both; and it provides
/// [interior mutability]. `critical_section::Mutex`, on the other hand, only adds
/// `Sync`. It does *not* provide interior mutability.
///
/// This was a conscious design choice. It is possible to create multiple
/// [`CriticalSection`] tokens, either by nesting critical sections or `Copy`ing
/// an existing token. As a result, it would not be sound for [`Mutex::borrow`]
/// to return `&mut T`, because there would be nothing to prevent calling
/// `borrow` multiple times to create aliased `&mut T` references.
///
/// The solution is to include a runtime check to ensure that each resource is
/// borrowed only once. This is what `std::sync::Mutex` does. However, this is
/// a runtime cost that may not be required in all circumstances. For instance,
/// `Mutex<Cell<T>>` never needs to create `&mut T` or equivalent.
///
/// If `&mut T` is needed, the simplest solution is to use `Mutex<RefCell<T>>`,
/// which is the closest analogy to `std::sync::Mutex`. [`RefCell`] inserts the
/// exact runtime check necessary to guarantee that the `&mut T` reference is
/// unique.
///
/// To reduce verbosity when using `Mutex<RefCell<T>>`, we reimplement some of
/// `RefCell`'s methods on it directly.
///
/// ```no_run
/// # use critical_section::Mutex;
/// # use std::cell::RefCell;
///
/// static FOO: Mutex<RefCell<i32>> = Mutex::new(RefCell::new(42));
///
/// fn main() {
///     critical_section::with(|cs| {
///         // Instead of calling this
///         let _ = FOO.borrow(cs).take();
///         // Call this
///         let _ = FOO.take(cs);
///         // `RefCell::borrow` and `RefCell::borrow_mut` are renamed to
///         // `borrow_ref` and `borrow_ref_mut` to avoid name collisions
///         let _: &mut i32 = &mut *FOO.borrow_ref_mut(cs);
///     })
/// }
/// ```
///
/// [`std::sync::Mutex`]: https://doc.rust-lang.org/std/sync/struct.Mutex.html
/// [interior mutability]: https://doc.rust-lang.org/reference/interior-mutability.html
#[derive(Debug)]
pub struct Mutex<T> {
    // The `UnsafeCell` is not strictly necessary here: In theory, just using `T` should
    // be fine.
    // However, without `UnsafeCell`, the compiler may use niches inside `T`, and may
    // read the niche value _without locking the mutex_. As we don't provide interior
    // mutability, this is still not violating any aliasing rules and should be perfectly
    // fine. But as the cost of adding `UnsafeCell` is very small, we add it out of
    // cautiousness, just in case the reason `T` is not `Sync` in the first place is
    // something very obscure we didn't consider.
    inner: UnsafeCell<T>,
}

impl<T> Mutex<T> {
    /// Creates a new mutex.
    #[inline]
    pub const fn new(value: T) -> Self {
        Mutex {
            inner: UnsafeCell::new(value),
        }
    }

    /// Gets a mutable reference to the contained value when the mutex is already uniquely borrowed.
    ///
    /// This does not require locking or a critical section since it takes `&mut self`, which
    /// guarantees unique ownership already. Care must be taken when using this method to
    /// **unsafely** access `static mut` variables, appropriate fences must be used to prevent
    /// unwanted optimizations.
    #[inline]
    pub fn get_mut(&mut self) -> &mut T {
        unsafe { &mut *self.inner.get() }
    }

    /// Unwraps the contained value, consuming the mutex.
    #[inline]
    pub fn into_inner(self) -> T {
        self.inner.into_inner()
    }

    /// Borrows the data for the duration of the critical section.
    #[inline]
    pub fn borrow<'cs>(&'cs self, _cs: CriticalSection<'cs>) -> &'cs T {
        unsafe { &*self.inner.get() }
    }
}

impl<T> Mutex<RefCell<T>> {
    /// Borrow the data and call [`RefCell::replace`]
    ///
    /// This is equivalent to `self.borrow(cs).replace(t)`
    ///
    /// # Panics
    ///
    /// This call could panic. See the documentation for [`RefCell::replace`]
    /// for more details.
    #[inline]
    #[track_caller]
    pub fn replace<'cs>(&'cs self, cs: CriticalSection<'cs>, t: T) -> T {
        self.borrow(cs).replace(t)
    }

    /// Borrow the data and call [`RefCell::replace_with`]
    ///
    /// This is equivalent to `self.borrow(cs).replace_with(f)`
    ///
    /// # Panics
    ///
    /// This call could panic. See the documentation for
    /// [`RefCell::replace_with`] for more details.
    #[inline]
    #[track_caller]
    pub fn replace_with<'cs, F>(&'cs self, cs: CriticalSection<'cs>, f: F) -> T
    where
        F: FnOnce(&mut T) -> T,
    {
        self.borrow(cs).replace_with(f)
    }

    /// Borrow the data and call [`RefCell::borrow`]
    ///
    /// This is equivalent to `self.borrow(cs).borrow()`
    ///
    /// # Panics
    ///
    /// This call could panic. See the documentation for [`RefCell::borrow`]
    /// for more details.
    #[inline]
    #[track_caller]
    pub fn borrow_ref<'cs>(&'cs self, cs: CriticalSection<'cs>) -> Ref<'cs, T> {
        self.borrow(cs).borrow()
    }

    /// Borrow the data and call [`RefCell::borrow_mut`]
    ///
    /// This is equivalent to `self.borrow(cs).borrow_mut()`
    ///
    /// # Panics
    ///
    /// This call could panic. See the documentation for [`RefCell::borrow_mut`]
    /// for more details.
    #[inline]
    #[track_caller]
    pub fn borrow_ref_mut<'cs>(&'cs self, cs: CriticalSection<'cs>) -> RefMut<'cs, T> {
        self.borrow(cs).borrow_mut()
    }
}

impl<T: Default> Mutex<RefCell<T>> {
    /// Borrow the data and call [`RefCell::take`]
    ///
    /// This is equivalent to `self.borrow(cs).take()`
    ///
    /// # Panics
    ///
    /// This call could panic. See the documentation for [`RefCell::take`]
    /// for more details.
    #[inline]
    #[track_caller]
    pub fn take<'cs>(&'cs self, cs: CriticalSection<'cs>) -> T {
        self.borrow(cs).take()
    }
}

// NOTE A `Mutex` can be used as a channel so the protected data must be `Send`
// to prevent sending non-Sendable stuff (e.g. access tokens) across different
// threads.
unsafe impl<T> Sync for Mutex<T> where T: Send {}

/// ``` compile_fail
/// fn bad(cs: critical_section::CriticalSection) -> &u32 {
///     let x = critical_section::Mutex::new(42u32);
///     x.borrow(cs)
/// }
/// ```
#[cfg(doctest)]
const BorrowMustNotOutliveMutexTest: () = ();
