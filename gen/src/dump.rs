//! Parsing of the machine-readable lines printed by generated programs (see support_rs.txt).
#![allow(dead_code)]

use serde::Deserialize;
use serde_json::Value;
use std::collections::BTreeMap;

#[derive(Deserialize, Clone, Debug)]
pub struct OShallow {
    pub kind: String,
    pub name: String,
    pub bound: Vec<u64>,
    pub elem: Option<Box<OShallow>>,
    pub disc: Option<Box<OShallow>>,
}

impl OShallow {
    pub fn brief(&self) -> String {
        let mut s = self.kind.clone();
        if !self.name.is_empty() {
            s.push_str(&format!("({})", self.name));
        }
        if !self.bound.is_empty() {
            s.push_str(&format!("{:?}", self.bound));
        }
        if let Some(e) = &self.elem {
            s.push_str(&format!("<{}>", e.brief()));
        }
        s
    }
}

#[derive(Deserialize, Clone, Debug)]
pub struct OMember {
    pub name: String,
    pub id: u64,
    pub index: u64,
    pub key: bool,
    pub opt: bool,
    pub mu: bool,
    pub labels: Vec<i64>,
    pub default: bool,
    #[serde(rename = "type")]
    pub ty: OShallow,
}

#[derive(Deserialize, Clone, Debug)]
pub struct OType {
    pub kind: String,
    pub name: String,
    pub bound: Vec<u64>,
    pub ext: String,
    pub nested: bool,
    pub elem: Option<Box<OShallow>>,
    pub disc: Option<Box<OShallow>>,
    pub base: Option<OShallow>,
    pub members: Vec<OMember>,
}

impl OType {
    pub fn as_shallow(&self) -> OShallow {
        OShallow {
            kind: self.kind.clone(),
            name: self.name.clone(),
            bound: self.bound.clone(),
            elem: self.elem.clone(),
            disc: self.disc.clone(),
        }
    }
}

#[derive(Clone, Debug)]
pub struct RtFail {
    pub val: usize,
    pub kind: String,
    pub got: String,
    pub want: String,
    pub dynd: String,
}

#[derive(Clone, Debug)]
pub struct EnumVal {
    pub decl: String,
    pub lit: String,
    pub rust: i64,
    pub dynv: Option<i64>,
}

#[derive(Clone, Debug, Default)]
pub struct CaseOut {
    pub types: BTreeMap<String, OType>,
    pub rt_fail: Vec<RtFail>,
    pub rt_done: Option<(u64, u64)>,
    pub enum_vals: Vec<EnumVal>,
    pub bad_lines: Vec<String>,
}

pub fn parse_stdout(s: &str) -> BTreeMap<usize, CaseOut> {
    let mut out: BTreeMap<usize, CaseOut> = BTreeMap::new();
    for line in s.lines() {
        let Ok(v) = serde_json::from_str::<Value>(line) else { continue };
        let Some(case) = v["case"].as_u64() else { continue };
        let e = out.entry(case as usize).or_default();
        if v.get("type").is_some() {
            match serde_json::from_value::<OType>(v["type"].clone()) {
                Ok(t) => {
                    e.types.insert(v["decl"].as_str().unwrap_or("").to_string(), t);
                }
                Err(err) => e.bad_lines.push(format!("{err}: {line}")),
            }
        } else if v.get("rt").is_some() {
            e.rt_fail.push(RtFail {
                val: v["val"].as_u64().unwrap_or(0) as usize,
                kind: v["rt"].as_str().unwrap_or("").to_string(),
                got: v["got"].as_str().unwrap_or("").to_string(),
                want: v["want"].as_str().unwrap_or("").to_string(),
                dynd: v["dyn"].as_str().unwrap_or("").to_string(),
            });
        } else if v.get("rt_ok").is_some() {
            e.rt_done = Some((v["rt_ok"].as_u64().unwrap_or(0), v["rt_total"].as_u64().unwrap_or(0)));
        } else if v.get("lit").is_some() {
            e.enum_vals.push(EnumVal {
                decl: v["decl"].as_str().unwrap_or("").to_string(),
                lit: v["lit"].as_str().unwrap_or("").to_string(),
                rust: v["rust"].as_i64().unwrap_or(i64::MIN),
                dynv: v["dynv"].as_i64(),
            });
        }
    }
    out
}

/// One oracle complaint about a case
#[derive(Clone, Debug, PartialEq)]
pub struct Finding {
    pub sig: String,
    pub what: String,
}

pub fn finding(sig: impl Into<String>, what: impl Into<String>) -> Finding {
    Finding { sig: sig.into(), what: what.into() }
}

pub fn trunc(s: &str, n: usize) -> String {
    if s.chars().count() <= n { s.to_string() } else { format!("{}…", s.chars().take(n).collect::<String>()) }
}
