//! Random declarations over the documented attribute language of `#[derive(DdsType)]`
//! (README "Rust type definition using #[derive(DdsType)]" + dds_derive/src/derive/attributes.rs).
//!
//! Generated: container `name`, `extensibility`, `nested`, `bit_bound`, `switch(T)`/`switch(key, T)`;
//! field `key`, `id = n`, `hashid`, `optional` (on `Option<T>`), `default_value = expr`, `non_serialized`;
//! variant `case = v` (repeated), `default`.
//! Not generated: `external` (needs Box, no observable difference in dynamic data), `try_construct`
//! and `base_type` (undocumented), `hashid = "..."` (the macro only knows the flag form),
//! `optional` together with `default_value` or `key`, `Option<T>` without `optional`.

use super::ast::*;
use crate::rng::Src;

const RUST_KEYWORDS: &[&str] = &[
    "as", "break", "const", "continue", "crate", "else", "enum", "extern", "false", "fn", "for", "if", "impl", "in",
    "let", "loop", "match", "mod", "move", "mut", "pub", "ref", "return", "self", "static", "struct", "super",
    "trait", "true", "type", "unsafe", "use", "where", "while", "async", "await", "dyn", "abstract", "become", "box",
    "do", "final", "macro", "override", "priv", "typeof", "unsized", "virtual", "yield", "try", "gen", "union",
    "discriminator",
];

const FIELD_WORDS: &[&str] = &[
    "id", "x", "y", "z", "value", "data", "color", "shapesize", "name", "count", "flags", "payload", "ts", "seq", "kind",
    "angle", "speed", "label", "index", "points", "mode", "state", "level", "temp", "pressure", "owner", "tag",
];

const TYPE_WORDS: &[&str] = &[
    "Point", "Shape", "Sensor", "Reading", "Header", "Packet", "Status", "Color", "Command", "Track", "Sample", "Frame",
    "Event", "Entry", "Node", "Msg",
];

const VARIANT_WORDS: &[&str] =
    &["Red", "Green", "Blue", "Idle", "Busy", "Low", "High", "On", "Off", "North", "South", "Circle", "Square", "None_", "Some_", "Other"];

fn field_name(s: &mut Src, used: &mut Vec<String>) -> String {
    loop {
        let mut n = if s.chance(70) {
            (*s.pick(FIELD_WORDS)).to_string()
        } else {
            let len = 1 + s.below(9);
            let mut w = String::new();
            for i in 0..len {
                let c = if i == 0 || s.chance(80) {
                    (b'a' + s.below(26) as u8) as char
                } else if s.chance(50) {
                    '_'
                } else {
                    (b'0' + s.below(10) as u8) as char
                };
                w.push(c);
            }
            w
        };
        if used.contains(&n) {
            n.push_str(&format!("_{}", used.len()));
        }
        if RUST_KEYWORDS.contains(&n.as_str()) || used.contains(&n) {
            continue;
        }
        used.push(n.clone());
        return n;
    }
}

fn type_ident(s: &mut Src, k: usize) -> String {
    format!("{}{}", s.pick(TYPE_WORDS), k)
}

fn dds_name(s: &mut Src, ident: &str) -> String {
    match s.below(3) {
        0 => format!("pkg::{ident}"),
        1 => format!("a::b::{}", ident.to_lowercase()),
        _ => format!("Custom{ident}"),
    }
}

fn gen_ext(s: &mut Src) -> Option<Ext> {
    match s.weighted(&[30, 15, 25, 30]) {
        0 => None,
        1 => Some(Ext::Final),
        2 => Some(Ext::Appendable),
        _ => Some(Ext::Mutable),
    }
}

fn gen_elem(s: &mut Src, ndecls: usize) -> Ty {
    match s.weighted(&[60, 15, if ndecls > 0 { 25 } else { 0 }]) {
        0 => Ty::Prim(*s.pick(&ALL_PRIMS)),
        1 => Ty::Str,
        _ => Ty::Named(s.below(ndecls)),
    }
}

pub fn gen_ty(s: &mut Src, ndecls: usize) -> Ty {
    match s.weighted(&[45, 12, 14, 10, if ndecls > 0 { 19 } else { 0 }]) {
        0 => Ty::Prim(*s.pick(&ALL_PRIMS)),
        1 => Ty::Str,
        2 => Ty::Vec(Box::new(gen_elem(s, ndecls))),
        3 => Ty::Arr(Box::new(gen_elem(s, ndecls)), 1 + s.below(4) as u32),
        _ => Ty::Named(s.below(ndecls)),
    }
}

fn gen_int(s: &mut Src, p: Prim) -> Val {
    let (lo, hi) = p.int_range().unwrap();
    let x: i128 = match s.below(8) {
        0 => lo,
        1 => hi,
        2 => 0,
        3 => 1,
        4 => (lo + 1).min(hi),
        _ => {
            let r = s.u64() as i128;
            let span = hi - lo + 1;
            lo + r.rem_euclid(span)
        }
    };
    if lo == 0 { Val::UInt(x as u64) } else { Val::Int(x as i64) }
}

fn gen_string(s: &mut Src) -> String {
    let len = match s.below(5) {
        0 => 0,
        1 => 1,
        _ => s.below(12),
    };
    (0..len)
        .map(|_| match s.below(12) {
            0 => ' ',
            1 => '_',
            2 => 'é',
            3 => '"',
            _ => (b'a' + s.below(26) as u8) as char,
        })
        .collect()
}

pub fn gen_prim_val(s: &mut Src, p: Prim) -> Val {
    match p {
        Prim::F32 => {
            let v: f32 = match s.below(6) {
                0 => 0.0,
                1 => -1.5,
                2 => f32::MAX,
                3 => f32::MIN_POSITIVE,
                4 => f32::INFINITY,
                _ => (s.range(-1_000_000, 1_000_000) as f32) / 64.0,
            };
            Val::F32(v.to_bits())
        }
        Prim::F64 => {
            let v: f64 = match s.below(6) {
                0 => 0.0,
                1 => -2.25,
                2 => f64::MAX,
                3 => f64::MIN_POSITIVE,
                4 => f64::NEG_INFINITY,
                _ => (s.range(-1_000_000_000, 1_000_000_000) as f64) / 1024.0,
            };
            Val::F64(v.to_bits())
        }
        Prim::Bool => Val::Bool(s.chance(50)),
        Prim::Char => Val::Char(32 + s.below(95) as u32),
        _ => gen_int(s, p),
    }
}

pub fn gen_val_ty(s: &mut Src, decls: &[Decl], ty: &Ty) -> Val {
    match ty {
        Ty::Prim(p) => gen_prim_val(s, *p),
        Ty::Str => Val::Str(gen_string(s)),
        Ty::Vec(e) => {
            let n = match s.below(4) {
                0 => 0,
                1 => 1,
                _ => s.below(4),
            };
            Val::Seq((0..n).map(|_| gen_val_ty(s, decls, e)).collect())
        }
        Ty::Arr(e, n) => Val::Arr((0..*n).map(|_| gen_val_ty(s, decls, e)).collect()),
        Ty::Named(i) => gen_val_decl(s, decls, *i),
    }
}

pub fn gen_val_decl(s: &mut Src, decls: &[Decl], i: usize) -> Val {
    match &decls[i] {
        Decl::Struct(st) => Val::Struct(
            i,
            st.fields
                .iter()
                .map(|f| {
                    if f.optional {
                        if s.chance(35) {
                            Val::Opt(None)
                        } else {
                            Val::Opt(Some(Box::new(gen_val_ty(s, decls, &f.ty))))
                        }
                    } else if f.default_value.is_some() && s.chance(25) {
                        f.default_value.clone().unwrap()
                    } else if s.chance(10) {
                        zero_ty(decls, &f.ty)
                    } else {
                        gen_val_ty(s, decls, &f.ty)
                    }
                })
                .collect(),
        ),
        Decl::Enum(e) => Val::Enum(i, s.below(e.variants.len())),
        Decl::Union(u) => {
            let k = s.below(u.variants.len());
            let payload = match &u.variants[k].shape {
                VShape::Unit => None,
                VShape::Tuple(t) | VShape::Named(_, t) => Some(Box::new(gen_val_ty(s, decls, t))),
            };
            Val::Union(i, k, payload)
        }
    }
}

fn gen_struct(s: &mut Src, decls: &[Decl], k: usize) -> StructD {
    let ident = type_ident(s, k);
    let ext = gen_ext(s);
    let tuple = s.chance(15);
    let nfields = match s.below(10) {
        0 => 0,
        1 => 1,
        _ => 1 + s.below(6),
    };
    let mutable = ext == Some(Ext::Mutable);
    let mut used = vec![];
    let mut fields: Vec<Field> = vec![];
    for _ in 0..nfields {
        let ty = gen_ty(s, decls.len());
        let name = if tuple { None } else { Some(field_name(s, &mut used)) };
        let mut f = Field {
            name,
            ty,
            optional: false,
            key: false,
            id: None,
            hashid: false,
            default_value: None,
            non_serialized: false,
            split: s.chance(8),
        };
        match s.weighted(&[55, 15, 15, 7, 8]) {
            1 => f.key = true,
            2 => f.optional = true,
            3 => f.non_serialized = true,
            4 => {
                if matches!(f.ty, Ty::Prim(_) | Ty::Str) {
                    f.default_value = Some(gen_val_ty(s, decls, &f.ty));
                }
            }
            _ => {}
        }
        if f.non_serialized && s.chance(30) && matches!(f.ty, Ty::Prim(_) | Ty::Str) {
            f.default_value = Some(gen_val_ty(s, decls, &f.ty));
        }
        // member id class: explicit ids mostly where they matter (mutable), hashid on named fields only
        let id_pct = if mutable { 35 } else { 10 };
        if s.chance(id_pct) {
            f.id = Some(0); // placeholder, fixed below
        } else if !tuple && s.chance(if mutable { 15 } else { 6 }) {
            f.hashid = true;
        }
        fields.push(f);
    }
    assign_ids(s, &mut fields);
    StructD {
        ident: ident.clone(),
        name: if s.chance(30) { Some(dds_name(s, &ident)) } else { None },
        ext,
        nested: s.chance(20),
        tuple,
        split: s.chance(8),
        fields,
    }
}

/// Picks explicit ids such that the declaration is valid under XTypes 1.3 7.3.1.2.1.1: all member ids
/// (explicit, hashed, or previous + 1) distinct and below 2^28.
fn assign_ids(s: &mut Src, fields: &mut [Field]) {
    for attempt in 0..20 {
        let mut prev: Option<u32> = None;
        for f in fields.iter_mut() {
            if f.id.is_some() {
                let base = prev.map(|p| p + 1).unwrap_or(0);
                let v = match s.below(10) {
                    0 => base,
                    1 | 2 | 3 => base + 1 + s.below(9) as u32,
                    4 => 100 + s.below(900) as u32,
                    5 => s.below(20) as u32,
                    6 => 0x0FFF_FF00 + s.below(200) as u32,
                    _ => base + s.below(4) as u32,
                };
                f.id = Some(v.min(0x0FFF_FFF0));
            }
            prev = Some(super::oracle::expected_id(f, prev));
        }
        if super::oracle::ids_valid(fields) {
            return;
        }
        if attempt >= 10 {
            // give up on explicit ids one by one
            if let Some(f) = fields.iter_mut().rev().find(|f| f.id.is_some() || f.hashid) {
                f.id = None;
                f.hashid = false;
            }
        }
    }
    for f in fields.iter_mut() {
        f.id = None;
        f.hashid = false;
    }
}

fn gen_enum(s: &mut Src, k: usize) -> EnumD {
    let ident = type_ident(s, k);
    let bit_bound = match s.below(5) {
        0 => Some(8u8),
        1 => Some(16),
        2 => Some(32),
        _ => None,
    };
    let max: i64 = match bit_bound {
        Some(8) => 127,
        Some(16) => 32767,
        _ => i32::MAX as i64,
    };
    let n = 1 + s.below(6);
    let mut variants = vec![];
    let mut next = 0i64;
    let mut pool: Vec<&str> = VARIANT_WORDS.to_vec();
    for _ in 0..n {
        let w = pool.remove(s.below(pool.len()));
        let room = max - next;
        if room < 0 {
            break;
        }
        let explicit = if s.chance(30) {
            let jump = match s.below(4) {
                0 => 0,
                1 => s.below(5) as i64,
                2 => s.below(100) as i64,
                _ => room - s.below(3).min(room as usize) as i64,
            };
            Some(next + jump.min(room).max(0))
        } else {
            None
        };
        let v = explicit.unwrap_or(next);
        variants.push((w.to_string(), explicit));
        next = v + 1;
    }
    EnumD {
        ident: ident.clone(),
        name: if s.chance(30) { Some(dds_name(s, &ident)) } else { None },
        nested: s.chance(20),
        bit_bound,
        split: s.chance(8),
        variants,
    }
}

fn gen_union(s: &mut Src, decls: &[Decl], k: usize) -> UnionD {
    let ident = type_ident(s, k);
    let enums: Vec<usize> = decls.iter().enumerate().filter(|(_, d)| matches!(d, Decl::Enum(_))).map(|(i, _)| i).collect();
    let switch = if !enums.is_empty() && s.chance(25) {
        Switch::Enum(*s.pick(&enums))
    } else {
        Switch::Prim(*s.pick(&[
            Prim::U8,
            Prim::I8,
            Prim::I16,
            Prim::U16,
            Prim::I32,
            Prim::I32,
            Prim::I32,
            Prim::U32,
            Prim::I64,
            Prim::U64,
            Prim::Char,
            Prim::Bool,
        ]))
    };
    // label universe (labels are published as i32: stay inside both the discriminator type and i32)
    let universe: Vec<i64> = match &switch {
        Switch::Prim(Prim::Bool) => vec![0, 1],
        Switch::Prim(Prim::Char) => (33..=126).filter(|c| *c != 39 && *c != 92).collect(),
        Switch::Prim(p) => {
            let (lo, hi) = p.int_range().unwrap();
            let lo = lo.max(i32::MIN as i128) as i64;
            let hi = hi.min(i32::MAX as i128) as i64;
            let mut u: Vec<i64> = (0..=24).filter(|v| *v >= lo && *v <= hi).collect();
            for extra in [lo, hi, -1, -7, 100, 1000, 65535, 40000] {
                if extra >= lo && extra <= hi && !u.contains(&extra) {
                    u.push(extra);
                }
            }
            u
        }
        Switch::Enum(i) => match &decls[*i] {
            Decl::Enum(e) => e.values(),
            _ => vec![0],
        },
    };
    let mut avail = universe.clone();
    let nvar = (1 + s.below(4)).min(avail.len().max(1));
    let default_at = if s.chance(40) { Some(if s.chance(70) { nvar - 1 } else { s.below(nvar) }) } else { None };
    // README: an omitted `case` "defaults to the 0-indexed index of the variant", i.e. an integer:
    // caseless variants (default or not) are only generated for integer discriminators
    let int_switch = !matches!(switch, Switch::Enum(_) | Switch::Prim(Prim::Bool) | Switch::Prim(Prim::Char));
    let omit_case = int_switch && s.chance(8);
    let mut pool: Vec<&str> = VARIANT_WORDS.to_vec();
    let mut variants = vec![];
    for vi in 0..nvar {
        let w = pool.remove(s.below(pool.len())).to_string();
        let shape = match s.weighted(&[15, 55, 30]) {
            0 => VShape::Unit,
            1 => VShape::Tuple(gen_ty(s, decls.len())),
            _ => {
                let mut used = vec![];
                VShape::Named(field_name(s, &mut used), gen_ty(s, decls.len()))
            }
        };
        let is_default = default_at == Some(vi);
        let want = if is_default {
            if int_switch { s.below(3) } else { 1 + s.below(2) }
        } else if omit_case && s.chance(50) {
            0
        } else {
            1 + s.weighted(&[70, 20, 10])
        };
        let mut cases = vec![];
        for _ in 0..want {
            if avail.is_empty() {
                break;
            }
            let c = avail.remove(s.below(avail.len()));
            cases.push(c);
        }
        if cases.is_empty() && !(is_default && int_switch) && !omit_case {
            // no label left for a non-default variant: stop adding variants
            break;
        }
        variants.push(UVariant { ident: w, shape, cases, default: is_default });
    }
    // a caseless variant at position k is documented to have label k: no other variant may declare k
    let caseless: Vec<i64> = variants.iter().enumerate().filter(|(_, v)| v.cases.is_empty()).map(|(k, _)| k as i64).collect();
    for (vpos, v) in variants.iter_mut().enumerate() {
        let mut i = 0;
        while i < v.cases.len() {
            if caseless.contains(&v.cases[i]) {
                avail.retain(|a| !caseless.contains(a));
                if !avail.is_empty() {
                    v.cases[i] = avail.remove(s.below(avail.len()));
                    i += 1;
                } else if v.cases.len() > 1 {
                    v.cases.remove(i);
                } else {
                    // nothing left to rename it to: keep the declaration valid by making it the only label user
                    v.cases[i] = 110 + (vpos as i64) * 3 + i as i64;
                    i += 1;
                }
            } else {
                i += 1;
            }
        }
    }
    if variants.is_empty() {
        variants.push(UVariant {
            ident: "Only".into(),
            shape: VShape::Tuple(Ty::Prim(Prim::I32)),
            cases: vec![universe[0]],
            default: false,
        });
    }
    let any_payload = variants.iter().any(|v| !matches!(v.shape, VShape::Unit));
    if !any_payload {
        // a Rust enum with only unit variants is an enumeration, not a union
        variants[0].shape = VShape::Tuple(gen_ty(s, decls.len()));
    }
    UnionD {
        ident: ident.clone(),
        name: if s.chance(30) { Some(dds_name(s, &ident)) } else { None },
        ext: gen_ext(s),
        nested: s.chance(20),
        switch,
        key: s.chance(20),
        split: s.chance(8),
        variants,
    }
}

pub fn gen_case(s: &mut Src, nvalues: usize) -> Case {
    let ndecl = 1 + s.weighted(&[35, 35, 20, 10]);
    let mut decls: Vec<Decl> = vec![];
    for k in 0..ndecl {
        let root = k + 1 == ndecl;
        let d = match s.weighted(&[if root { 60 } else { 45 }, if root { 12 } else { 30 }, 28]) {
            0 => Decl::Struct(gen_struct(s, &decls, k)),
            1 => Decl::Enum(gen_enum(s, k)),
            _ => Decl::Union(gen_union(s, &decls, k)),
        };
        decls.push(d);
    }
    let root = decls.len() - 1;
    let mut values = vec![];
    match &decls[root] {
        Decl::Enum(e) => {
            for k in 0..e.variants.len() {
                values.push(Val::Enum(root, k));
            }
        }
        Decl::Union(u) => {
            // every variant at least once, then random ones
            for k in 0..u.variants.len() {
                let payload = match &u.variants[k].shape {
                    VShape::Unit => None,
                    VShape::Tuple(t) | VShape::Named(_, t) => Some(Box::new(gen_val_ty(s, &decls, t))),
                };
                values.push(Val::Union(root, k, payload));
            }
            while values.len() < nvalues {
                values.push(gen_val_decl(s, &decls, root));
            }
        }
        Decl::Struct(_) => {
            values.push(zero_decl(&decls, root));
            while values.len() < nvalues {
                values.push(gen_val_decl(s, &decls, root));
            }
        }
    }
    values.dedup();
    Case { decls, values }
}
