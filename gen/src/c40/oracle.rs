//! C40 oracle: what the published type description and the value round trip must look like, derived
//! from the declaration (the generator's AST) and XTypes 1.3 only.
//!
//! Member ids (XTypes 1.3 7.3.1.2.1.1 / Table 21 @id, @hashid, @autoid(SEQUENTIAL)):
//!   explicit `id = n`  -> n
//!   `hashid`           -> first 4 bytes of MD5(member name), little endian, & 0x0FFFFFFF
//!   otherwise          -> id of the previous member + 1 (0 for the first member)
//! Tolerances (statement leaves freedom): a non-serialized member may or may not consume a sequential
//! id; `u8` may be published as UINT8 or BYTE; sequence/string bounds and must-understand flags are not
//! part of the statement and are not checked; union member ids are not declared and not checked; a
//! caseless union variant may be labelled with its index (README) or index + 1 (implementation).

use super::ast::*;
use crate::dump::{CaseOut, Finding, OMember, OShallow, OType, finding, trunc};

pub fn hash_id_raw(name: &str) -> u32 {
    let d = md5::compute(name.as_bytes());
    u32::from_le_bytes([d[0], d[1], d[2], d[3]])
}

pub fn hash_id(name: &str) -> u32 {
    hash_id_raw(name) & 0x0FFF_FFFF
}

pub fn expected_id(f: &Field, prev: Option<u32>) -> u32 {
    if let Some(id) = f.id {
        id
    } else if f.hashid {
        hash_id(f.name.as_deref().unwrap_or(""))
    } else {
        prev.map(|p| p.wrapping_add(1)).unwrap_or(0)
    }
}

/// Expected ids; `ns_counts` = non-serialized members take part in the sequential numbering.
/// Entry is None for non-serialized members when they do not count.
pub fn expected_ids(fields: &[Field], ns_counts: bool) -> Vec<Option<u32>> {
    let mut prev = None;
    let mut out = vec![];
    for f in fields {
        if f.non_serialized && !ns_counts {
            out.push(None);
            continue;
        }
        let id = expected_id(f, prev);
        prev = Some(id);
        out.push(Some(id));
    }
    out
}

pub fn ids_valid(fields: &[Field]) -> bool {
    for ns_counts in [true, false] {
        let ids: Vec<u32> = expected_ids(fields, ns_counts).into_iter().flatten().collect();
        if ids.iter().any(|i| *i > 0x0FFF_FFFF) {
            return false;
        }
        let mut s = ids.clone();
        s.sort();
        s.dedup();
        if s.len() != ids.len() {
            return false;
        }
    }
    true
}

/// One root cause, one signature: an item carrying several `#[dust_dds(..)]` attributes.
pub const SPLIT_SIG: &str = "C40:attributes:only-first-dust_dds-attribute-honoured";
pub const IMPLICIT_LABEL_SIG: &str = "C40:union-caseless-variant:implicit-label-equals-case-of-another-variant";

fn field_items(f: &Field) -> usize {
    f.key as usize
        + f.id.is_some() as usize
        + f.hashid as usize
        + f.optional as usize
        + f.default_value.is_some() as usize
        + f.non_serialized as usize
}
pub fn field_is_split(f: &Field) -> bool {
    f.split && field_items(f) >= 2
}
fn struct_is_split(s: &StructD) -> bool {
    s.split && (s.name.is_some() as usize + s.ext.is_some() as usize + s.nested as usize) >= 2
}
fn enum_is_split(e: &EnumD) -> bool {
    e.split && (e.name.is_some() as usize + e.nested as usize + e.bit_bound.is_some() as usize) >= 2
}
fn union_is_split(u: &UnionD) -> bool {
    // switch(..) is always the first item
    u.split && (u.name.is_some() as usize + u.ext.is_some() as usize + u.nested as usize) >= 1
}
pub fn case_has_split(case: &Case) -> bool {
    case.decls.iter().any(|d| match d {
        Decl::Struct(s) => struct_is_split(s) || s.fields.iter().any(field_is_split),
        Decl::Enum(e) => enum_is_split(e),
        Decl::Union(u) => union_is_split(u),
    })
}
fn split_finding(ident: &str, detail: String) -> Finding {
    finding(
        SPLIT_SIG,
        format!("{ident}: attributes written as several #[dust_dds(..)] attributes on one item: only the first one takes effect ({detail})"),
    )
}

fn ty_pattern(decls: &[Decl], ty: &Ty) -> String {
    match ty {
        Ty::Prim(p) => p.rust().to_string(),
        Ty::Str => "String".into(),
        Ty::Vec(e) => format!("Vec<{}>", ty_pattern(decls, e)),
        Ty::Arr(e, _) => format!("[{};N]", ty_pattern(decls, e)),
        Ty::Named(i) => match &decls[*i] {
            Decl::Struct(_) => "struct".into(),
            Decl::Enum(_) => "enum".into(),
            Decl::Union(_) => "union".into(),
        },
    }
}

/// Err(short reason) when the published (shallow) type does not describe `ty`
fn shape_ok(decls: &[Decl], ty: &Ty, o: &OShallow) -> Result<(), String> {
    match ty {
        Ty::Prim(p) => {
            if p.kinds().contains(&o.kind.as_str()) { Ok(()) } else { Err(format!("kind-{}", o.kind)) }
        }
        Ty::Str => {
            if o.kind == "STRING8" { Ok(()) } else { Err(format!("kind-{}", o.kind)) }
        }
        Ty::Vec(e) => {
            if o.kind != "SEQUENCE" {
                return Err(format!("kind-{}", o.kind));
            }
            match &o.elem {
                Some(oe) => shape_ok(decls, e, oe).map_err(|r| format!("elem-{r}")),
                None => Err("no-element-type".into()),
            }
        }
        Ty::Arr(e, n) => {
            if o.kind != "ARRAY" {
                return Err(format!("kind-{}", o.kind));
            }
            if o.bound != vec![*n as u64] {
                return Err("array-length".into());
            }
            match &o.elem {
                Some(oe) => shape_ok(decls, e, oe).map_err(|r| format!("elem-{r}")),
                None => Err("no-element-type".into()),
            }
        }
        Ty::Named(i) => {
            let d = &decls[*i];
            let kind = match d {
                Decl::Struct(_) => "STRUCTURE",
                Decl::Enum(_) => "ENUM",
                Decl::Union(_) => "UNION",
            };
            if o.kind != kind {
                return Err(format!("kind-{}", o.kind));
            }
            if o.name != d.declared_name() {
                let split = match d {
                    Decl::Struct(s) => struct_is_split(s),
                    Decl::Enum(e) => enum_is_split(e),
                    Decl::Union(u) => union_is_split(u),
                };
                return Err(if split { "SPLIT".into() } else { "nested-type-name".into() });
            }
            Ok(())
        }
    }
}

fn check_header(out_all: &mut Vec<Finding>, split: bool, ident: &str, o: &OType, kind: &str, name: &str, ext: Option<Ext>, nested: bool) {
    let mut local: Vec<Finding> = vec![];
    check_header_inner(&mut local, ident, o, kind, name, ext, nested);
    if split && !local.is_empty() {
        let detail = local.iter().map(|f| f.what.clone()).collect::<Vec<_>>().join("; ");
        out_all.push(split_finding(ident, detail));
    } else {
        out_all.extend(local);
    }
}

fn check_header_inner(out: &mut Vec<Finding>, ident: &str, o: &OType, kind: &str, name: &str, ext: Option<Ext>, nested: bool) {
    if o.kind != kind {
        out.push(finding(format!("C40:type-kind:{kind}-published-as-{}", o.kind), format!("{ident}: kind {}", o.kind)));
    }
    if o.name != name {
        out.push(finding(
            if name == ident { "C40:type-name:default-name".to_string() } else { "C40:type-name:name-attribute".to_string() },
            format!("{ident}: declared name {:?}, published {:?}", name, o.name),
        ));
    }
    if let Some(ext) = ext {
        if o.ext != ext.debug_name() {
            out.push(finding(
                format!("C40:extensibility:{}-published-as-{}", ext.debug_name(), o.ext),
                format!("{ident}: declared {}, published {}", ext.debug_name(), o.ext),
            ));
        }
    }
    if o.nested != nested {
        out.push(finding(
            format!("C40:nested-flag:declared-{nested}-published-{}", o.nested),
            format!("{ident}: nested declared {nested}, published {}", o.nested),
        ));
    }
}

fn check_struct(decls: &[Decl], s: &StructD, o: &OType, out: &mut Vec<Finding>) {
    // README: extensibility "Defaults to final"
    check_header(out, struct_is_split(s), &s.ident, o, "STRUCTURE", s.name.as_deref().unwrap_or(&s.ident), Some(s.ext.unwrap_or(Ext::Final)), s.nested);
    let n_all = s.fields.len();
    let n_ser = s.fields.iter().filter(|f| !f.non_serialized).count();
    let aligned: Vec<(usize, &Field, &OMember)>;
    if o.members.len() == n_ser {
        aligned = s
            .fields
            .iter()
            .enumerate()
            .filter(|(_, f)| !f.non_serialized)
            .zip(&o.members)
            .map(|((i, f), m)| (i, f, m))
            .collect();
    } else if o.members.len() == n_all {
        aligned = s.fields.iter().enumerate().zip(&o.members).map(|((i, f), m)| (i, f, m)).collect();
        out.push(finding(
            "C40:non-serialized:described-as-ordinary-member",
            format!(
                "{}: non_serialized member(s) {:?} appear in the published description as ordinary serialized members (the dynamic data never holds them)",
                s.ident,
                s.fields.iter().filter(|f| f.non_serialized).map(|f| f.name.clone().unwrap_or_default()).collect::<Vec<_>>()
            ),
        ));
    } else {
        out.push(finding(
            "C40:members:count",
            format!("{}: {} members declared ({} serialized), {} published", s.ident, n_all, n_ser, o.members.len()),
        ));
        return;
    }
    for (_, f, m) in &aligned {
        if let Some(n) = &f.name {
            if &m.name != n {
                out.push(finding("C40:member-name:differs", format!("{}: member {:?} published as {:?}", s.ident, n, m.name)));
            }
        }
        if f.non_serialized {
            continue;
        }
        if m.key != f.key {
            if field_is_split(f) {
                out.push(split_finding(&s.ident, format!("member {}: key declared {}, published {}", m.name, f.key, m.key)));
            } else {
                out.push(finding(
                    format!("C40:key-flag:declared-{}-published-{}", f.key, m.key),
                    format!("{}.{}: key declared {}, published {}", s.ident, m.name, f.key, m.key),
                ));
            }
        }
        if m.opt != f.optional {
            if field_is_split(f) {
                out.push(split_finding(&s.ident, format!("member {}: optional declared {}, published {}", m.name, f.optional, m.opt)));
            } else {
                out.push(finding(
                    format!("C40:optional-flag:declared-{}-published-{}", f.optional, m.opt),
                    format!("{}.{}: optional declared {}, published {}", s.ident, m.name, f.optional, m.opt),
                ));
            }
        }
        if let Err(r) = shape_ok(decls, &f.ty, &m.ty) {
            out.push(finding(
                if r.ends_with("SPLIT") { SPLIT_SIG.to_string() } else { format!("C40:member-type:{}:{}", ty_pattern(decls, &f.ty), r) },
                format!("{}.{}: declared {}, published {}", s.ident, m.name, render_ty(decls, &f.ty), m.ty.brief()),
            ));
        }
    }
    // member ids
    let mutable = s.ext == Some(Ext::Mutable);
    let obs: Vec<(usize, u64)> = aligned.iter().filter(|(_, f, _)| !f.non_serialized).map(|(i, _, m)| (*i, m.id)).collect();
    let mut ok = false;
    for ns_counts in [true, false] {
        let exp = expected_ids(&s.fields, ns_counts);
        if obs.iter().all(|(i, id)| exp[*i].map(|e| e as u64) == Some(*id)) {
            ok = true;
        }
    }
    if !ok {
        let exp = expected_ids(&s.fields, true);
        let mut sigs: Vec<Finding> = vec![];
        for (i, id) in &obs {
            let f = &s.fields[*i];
            let e = exp[*i].unwrap();
            if e as u64 == *id {
                continue;
            }
            let fname = f.name.clone().unwrap_or_else(|| i.to_string());
            // the member whose id attribute determines this id: itself, or the closest earlier
            // member with id/hashid from which the numbering continues
            let culprit = if f.id.is_some() || f.hashid {
                Some(f)
            } else {
                s.fields[..*i].iter().rev().find(|p| p.id.is_some() || p.hashid)
            };
            if culprit.map(field_is_split).unwrap_or(false) || (struct_is_split(s) && s.ext.is_some()) {
                sigs.push(split_finding(&s.ident, format!("member {fname:?} must have id {e}, published {id}")));
                continue;
            }
            let (shape, why) = if f.hashid {
                if *id == hash_id_raw(&fname) as u64 {
                    ("hashid-not-masked-to-28-bits", "the MD5-derived id is published without `& 0x0FFFFFFF`")
                } else {
                    ("hashid-wrong-value", "the published id is not derived from MD5(name)")
                }
            } else if f.id.is_some() {
                if !mutable {
                    ("explicit-id-ignored-in-final-or-appendable", "explicit id replaced by the member position")
                } else {
                    ("explicit-id-not-published", "explicit id of a mutable type not published")
                }
            } else {
                // automatic id: find what the numbering should have continued from
                let prev = s.fields[..*i].last();
                let after_hash = prev.map(|p| p.hashid).unwrap_or(false);
                let explicit_before = s.fields[..*i].iter().any(|p| p.id.is_some());
                let hash_before = s.fields[..*i].iter().any(|p| p.hashid);
                if after_hash || (hash_before && !explicit_before) {
                    ("auto-id-after-hashid-member", "a member without id following a hashid member must get that id + 1")
                } else if !mutable && explicit_before {
                    ("explicit-id-ignored-in-final-or-appendable", "numbering does not continue from the explicit id")
                } else if hash_before {
                    ("auto-id-after-hashid-member", "numbering after a hashid member is off")
                } else {
                    ("sequential-id-wrong", "sequential numbering is off")
                }
            };
            sigs.push(finding(
                format!("C40:member-id:{shape}"),
                format!(
                    "{} ({}): member {:?} must have id {} (0x{:x}), published {} (0x{:x}): {}",
                    s.ident,
                    s.ext.map(|e| e.attr()).unwrap_or("final by default"),
                    fname,
                    e,
                    e,
                    id,
                    id,
                    why
                ),
            ));
        }
        for f in sigs {
            if !out.iter().any(|x| x.sig == f.sig) {
                out.push(f);
            }
        }
    }
}

fn check_enum(e: &EnumD, o: &OType, co: &CaseOut, out: &mut Vec<Finding>) {
    check_header(out, enum_is_split(e), &e.ident, o, "ENUM", e.name.as_deref().unwrap_or(&e.ident), None, e.nested);
    let want = match e.bit_bound {
        Some(8) => "INT8",
        Some(16) => "INT16",
        _ => "INT32",
    };
    let got = o.disc.as_ref().map(|d| d.kind.clone()).unwrap_or_else(|| "none".into());
    if got != want && enum_is_split(e) {
        out.push(split_finding(&e.ident, format!("bit_bound {:?} needs holder {want}, published {got}", e.bit_bound)));
    } else if got != want {
        out.push(finding(
            format!("C40:enum-bit-bound:{}-published-as-{}", e.bit_bound.map(|b| b.to_string()).unwrap_or("default".into()), got),
            format!("{}: bit_bound {:?} needs holder {}, published {}", e.ident, e.bit_bound, want, got),
        ));
    }
    let vals = e.values();
    for (k, (lit, _)) in e.variants.iter().enumerate() {
        match co.enum_vals.iter().find(|v| v.decl == e.ident && &v.lit == lit) {
            None => out.push(finding("harness:enum-literal-line-missing", format!("{}::{}", e.ident, lit))),
            Some(v) => {
                if v.rust != vals[k] {
                    out.push(finding("harness:enum-value-model", format!("{}::{} is {} in Rust, model says {}", e.ident, lit, v.rust, vals[k])));
                }
                if v.dynv != Some(vals[k]) {
                    out.push(finding(
                        "C40:enum-value:dynamic-data-value-differs",
                        format!("{}::{} is {} but its dynamic data holds {:?}", e.ident, lit, vals[k], v.dynv),
                    ));
                }
            }
        }
    }
}

fn check_union(decls: &[Decl], u: &UnionD, o: &OType, out: &mut Vec<Finding>) {
    check_header(out, union_is_split(u), &u.ident, o, "UNION", u.name.as_deref().unwrap_or(&u.ident), Some(u.ext.unwrap_or(Ext::Final)), u.nested);
    // discriminator type
    match &o.disc {
        None => out.push(finding("C40:union-switch:no-discriminator-type", u.ident.clone())),
        Some(d) => {
            let r = match &u.switch {
                Switch::Prim(p) => shape_ok(decls, &Ty::Prim(*p), d),
                Switch::Enum(i) => shape_ok(decls, &Ty::Named(*i), d),
            };
            if let Err(r) = r {
                out.push(finding(
                    if r.ends_with("SPLIT") { SPLIT_SIG.to_string() } else { format!("C40:union-switch:{r}") },
                    format!("{}: switch type published as {}", u.ident, d.brief()),
                ));
            }
        }
    }
    // members: an implementation may list the discriminator as a pseudo member
    let mut members: Vec<&OMember> = o.members.iter().collect();
    let mut disc_key = false;
    if members.len() == u.variants.len() + 1 && members[0].name == "discriminator" && members[0].labels.is_empty() {
        disc_key = members[0].key;
        members.remove(0);
    }
    let any_key = disc_key || members.iter().any(|m| m.key);
    if any_key != u.key {
        out.push(finding(
            format!("C40:union-key:declared-{}-published-{}", u.key, any_key),
            format!("{}: switch(key, ..) declared {}, key flag published {}", u.ident, u.key, any_key),
        ));
    }
    if members.len() != u.variants.len() {
        out.push(finding(
            "C40:members:count",
            format!("{}: {} variants declared, {} published", u.ident, u.variants.len(), members.len()),
        ));
        return;
    }
    for (idx, (v, m)) in u.variants.iter().zip(&members).enumerate() {
        if m.name != v.ident {
            out.push(finding("C40:member-name:differs", format!("{}: variant {:?} published as {:?}", u.ident, v.ident, m.name)));
        }
        match &v.shape {
            VShape::Unit => {}
            VShape::Tuple(t) | VShape::Named(_, t) => {
                if let Err(r) = shape_ok(decls, t, &m.ty) {
                    out.push(finding(
                        if r.ends_with("SPLIT") { SPLIT_SIG.to_string() } else { format!("C40:member-type:{}:{}", ty_pattern(decls, t), r) },
                        format!("{}::{}: declared {}, published {}", u.ident, v.ident, render_ty(decls, t), m.ty.brief()),
                    ));
                }
            }
        }
        if m.default != v.default {
            out.push(finding(
                format!("C40:union-default:declared-{}-published-{}", v.default, m.default),
                format!("{}::{}: default declared {}, published {}", u.ident, v.ident, v.default, m.default),
            ));
        }
        let mut got = m.labels.clone();
        got.sort();
        got.dedup();
        let mut want = v.cases.clone();
        want.sort();
        if v.cases.is_empty() {
            let others: Vec<i64> = u.variants.iter().enumerate().filter(|(j, _)| *j != idx).flat_map(|(_, w)| w.cases.clone()).collect();
            let collides = got.iter().any(|l| others.contains(l));
            if v.default {
                // no label declared: any implicit label is fine unless it is another variant's label
                if collides {
                    out.push(finding(
                        IMPLICIT_LABEL_SIG,
                        format!("{}::{}: variant {} has no case (README: its label defaults to the 0-based variant index {}), it is published with labels {:?}, which another variant declares", u.ident, v.ident, idx, idx, got),
                    ));
                }
            } else if collides {
                out.push(finding(
                    IMPLICIT_LABEL_SIG,
                    format!("{}::{}: variant {} has no case (README: its label defaults to the 0-based variant index {}), it is published with labels {:?}, which another variant declares", u.ident, v.ident, idx, idx, got),
                ));
            } else if !(got == vec![idx as i64] || got == vec![idx as i64 + 1]) {
                out.push(finding(
                    "C40:union-label:caseless-variant-label",
                    format!("{}::{}: variant {} without case published with labels {:?}", u.ident, v.ident, idx, got),
                ));
            }
        } else if got != want {
            out.push(finding(
                "C40:union-label:declared-cases-differ",
                format!("{}::{}: cases {:?} declared, labels {:?} published", u.ident, v.ident, want, got),
            ));
        }
    }
}

/// Structural feature of a value that explains a failed round trip (signature shape).
fn rt_shape(decls: &[Decl], v: &Val, acc: &mut Vec<&'static str>) {
    match v {
        Val::Seq(xs) | Val::Arr(xs) => xs.iter().for_each(|x| rt_shape(decls, x, acc)),
        Val::Opt(Some(x)) => rt_shape(decls, x, acc),
        Val::Struct(_, fs) => fs.iter().for_each(|x| rt_shape(decls, x, acc)),
        Val::Union(i, k, p) => {
            if let Decl::Union(u) = &decls[*i] {
                let var = &u.variants[*k];
                if let Some(d) = u.variants.iter().position(|w| w.default) {
                    if *k > d {
                        acc.push("C40:roundtrip:union-variant-declared-after-default-variant");
                    }
                }
                let _ = var;
                // some caseless variant's position (+1 as implemented) equals a declared case of another variant
                let collision = u.variants.iter().enumerate().any(|(j, w)| {
                    w.cases.is_empty()
                        && u.variants.iter().enumerate().any(|(j2, w2)| j2 != j && (w2.cases.contains(&(j as i64 + 1)) || w2.cases.contains(&(j as i64))))
                });
                if collision {
                    acc.push(IMPLICIT_LABEL_SIG);
                }
            }
            if let Some(x) = p {
                rt_shape(decls, x, acc);
            }
        }
        _ => {}
    }
}

pub fn check_case(case: &Case, co: &CaseOut) -> Vec<Finding> {
    let mut out: Vec<Finding> = vec![];
    for l in &co.bad_lines {
        out.push(finding("harness:bad-dump-line", trunc(l, 300)));
    }
    for d in &case.decls {
        let Some(o) = co.types.get(d.ident()) else {
            out.push(finding("harness:type-dump-missing", d.ident().to_string()));
            continue;
        };
        match d {
            Decl::Struct(s) => check_struct(&case.decls, s, o, &mut out),
            Decl::Enum(e) => check_enum(e, o, co, &mut out),
            Decl::Union(u) => check_union(&case.decls, u, o, &mut out),
        }
    }
    match co.rt_done {
        Some((_, total)) if total as usize == case.values.len() => {}
        other => out.push(finding("harness:roundtrip-summary-missing", format!("{other:?}"))),
    }
    let root_kind = match case.decls.last() {
        Some(Decl::Struct(_)) => "struct",
        Some(Decl::Enum(_)) => "enum",
        _ => "union",
    };
    for f in &co.rt_fail {
        let Some(v) = case.values.get(f.val) else { continue };
        let mut acc = vec![];
        rt_shape(&case.decls, v, &mut acc);
        acc.sort();
        acc.dedup();
        let sig = if let Some(first) = acc.first() {
            first.to_string()
        } else if case_has_split(case) {
            SPLIT_SIG.to_string()
        } else {
            format!("C40:roundtrip:{}:{}", f.kind, root_kind)
        };
        if out.iter().any(|x| x.sig == sig) {
            continue;
        }
        let what = match f.kind.as_str() {
            "none" => format!("value {} -> dynamic data {} -> create_sample returned None", trunc(&f.want, 200), trunc(&f.dynd, 200)),
            "panic" => format!("value {}: conversion panicked: {}", trunc(&f.want, 200), trunc(&f.got, 200)),
            _ => format!("value {} came back as {} (dynamic data {})", trunc(&f.want, 200), trunc(&f.got, 200), trunc(&f.dynd, 200)),
        };
        out.push(finding(sig, what));
    }
    out
}

// ---------------------------------------------------------------------------------------------
// classification for the evidence file

pub fn attr_classes(case: &Case) -> Vec<&'static str> {
    let mut c: Vec<&'static str> = vec![];
    for d in &case.decls {
        match d {
            Decl::Struct(s) => {
                if s.name.is_some() || s.ext.is_some() || s.nested {
                    c.push("container");
                }
                for f in &s.fields {
                    if f.key {
                        c.push("key");
                    }
                    if f.id.is_some() || f.hashid {
                        c.push("member-id");
                    }
                    if f.optional {
                        c.push("optional");
                    }
                    if f.default_value.is_some() || f.non_serialized {
                        c.push("default/non-serialized");
                    }
                }
            }
            Decl::Enum(e) => {
                if e.name.is_some() || e.nested {
                    c.push("container");
                }
                if e.bit_bound.is_some() {
                    c.push("bit_bound");
                }
            }
            Decl::Union(u) => {
                if u.name.is_some() || u.ext.is_some() || u.nested {
                    c.push("container");
                }
                c.push("switch");
                if u.key {
                    c.push("key");
                }
                if u.variants.iter().any(|v| !v.cases.is_empty() || v.default) {
                    c.push("case/default");
                }
            }
        }
    }
    c.sort();
    c.dedup();
    c
}

pub fn depth_of(decls: &[Decl], i: usize) -> usize {
    fn ty_depth(decls: &[Decl], t: &Ty) -> usize {
        match t {
            Ty::Named(j) => depth_of(decls, *j),
            Ty::Vec(e) | Ty::Arr(e, _) => ty_depth(decls, e),
            _ => 0,
        }
    }
    1 + match &decls[i] {
        Decl::Struct(s) => s.fields.iter().map(|f| ty_depth(decls, &f.ty)).max().unwrap_or(0),
        Decl::Enum(_) => 0,
        Decl::Union(u) => {
            let sw = match &u.switch {
                Switch::Enum(j) => depth_of(decls, *j),
                _ => 0,
            };
            u.variants
                .iter()
                .map(|v| match &v.shape {
                    VShape::Unit => 0,
                    VShape::Tuple(t) | VShape::Named(_, t) => ty_depth(decls, t),
                })
                .max()
                .unwrap_or(0)
                .max(sw)
        }
    }
}

pub fn classes(case: &Case) -> (Vec<String>, bool) {
    let mut c: Vec<String> = vec![];
    let root = case.decls.len() - 1;
    c.push(
        match &case.decls[root] {
            Decl::Struct(_) => "root:struct",
            Decl::Enum(_) => "root:enum",
            Decl::Union(_) => "root:union",
        }
        .to_string(),
    );
    for d in &case.decls {
        match d {
            Decl::Struct(s) => {
                c.push("decl:struct".into());
                if s.tuple {
                    c.push("struct:tuple".into());
                }
                c.push(format!("ext:{}", s.ext.map(|e| e.attr()).unwrap_or("unspecified")));
                if s.name.is_some() {
                    c.push("attr:name".into());
                }
                if s.nested {
                    c.push("attr:nested".into());
                }
                if s.split || s.fields.iter().any(|f| f.split) {
                    c.push("attr:split-into-several-attributes".into());
                }
                for f in &s.fields {
                    if f.key {
                        c.push("attr:key".into());
                    }
                    if f.id.is_some() {
                        c.push("attr:id".into());
                    }
                    if f.hashid {
                        c.push("attr:hashid".into());
                    }
                    if f.optional {
                        c.push("attr:optional".into());
                    }
                    if f.default_value.is_some() {
                        c.push("attr:default_value".into());
                    }
                    if f.non_serialized {
                        c.push("attr:non_serialized".into());
                    }
                    match &f.ty {
                        Ty::Vec(_) => c.push("member:Vec".into()),
                        Ty::Arr(..) => c.push("member:array".into()),
                        Ty::Str => c.push("member:String".into()),
                        Ty::Named(_) => c.push("member:nested-type".into()),
                        Ty::Prim(_) => c.push("member:primitive".into()),
                    }
                }
            }
            Decl::Enum(e) => {
                c.push("decl:enum".into());
                if e.bit_bound.is_some() {
                    c.push("attr:bit_bound".into());
                }
                if e.variants.iter().any(|v| v.1.is_some()) {
                    c.push("enum:explicit-discriminant".into());
                }
            }
            Decl::Union(u) => {
                c.push("decl:union".into());
                c.push(format!("ext:{}", u.ext.map(|e| e.attr()).unwrap_or("unspecified")));
                if u.key {
                    c.push("attr:switch(key)".into());
                }
                match &u.switch {
                    Switch::Enum(_) => c.push("switch:enum".into()),
                    Switch::Prim(p) => c.push(format!("switch:{}", p.rust())),
                }
                if u.variants.iter().any(|v| v.default) {
                    c.push("attr:default".into());
                }
                if u.variants.iter().any(|v| v.cases.len() > 1) {
                    c.push("union:multi-case".into());
                }
                if u.variants.iter().any(|v| v.cases.is_empty() && !v.default) {
                    c.push("union:caseless-variant".into());
                }
            }
        }
    }
    let depth = depth_of(&case.decls, root);
    c.push(format!("depth:{depth}"));
    let ac = attr_classes(case);
    let nontrivial = ac.len() >= 2 || depth >= 2;
    c.sort();
    c.dedup();
    (c, nontrivial)
}
