//! Reductions of a C40 case (declarations + values) used by the delta-debugging loop: every candidate
//! is again a valid declaration within the documented attribute language.

use super::ast::*;
use super::oracle::ids_valid;

/// bottom-up rewrite; `f` returns None to poison (the enclosing root value is dropped)
fn rewrite(v: &Val, f: &dyn Fn(Val) -> Option<Val>) -> Option<Val> {
    let inner = match v {
        Val::Seq(xs) => Val::Seq(xs.iter().map(|x| rewrite(x, f)).collect::<Option<Vec<_>>>()?),
        Val::Arr(xs) => Val::Arr(xs.iter().map(|x| rewrite(x, f)).collect::<Option<Vec<_>>>()?),
        Val::Opt(Some(x)) => Val::Opt(Some(Box::new(rewrite(x, f)?))),
        Val::Struct(i, fs) => Val::Struct(*i, fs.iter().map(|x| rewrite(x, f)).collect::<Option<Vec<_>>>()?),
        Val::Union(i, k, Some(p)) => Val::Union(*i, *k, Some(Box::new(rewrite(p, f)?))),
        other => other.clone(),
    };
    f(inner)
}

fn map_values(case: &Case, decls: Vec<Decl>, f: &dyn Fn(Val) -> Option<Val>) -> Case {
    let mut values: Vec<Val> = case.values.iter().filter_map(|v| rewrite(v, f)).collect();
    values.dedup();
    // default values inside declarations are plain primitives/strings: nothing to rewrite
    Case { decls, values }
}

fn decl_refs(d: &Decl) -> Vec<usize> {
    fn ty_refs(t: &Ty, out: &mut Vec<usize>) {
        match t {
            Ty::Named(i) => out.push(*i),
            Ty::Vec(e) | Ty::Arr(e, _) => ty_refs(e, out),
            _ => {}
        }
    }
    let mut out = vec![];
    match d {
        Decl::Struct(s) => s.fields.iter().for_each(|f| ty_refs(&f.ty, &mut out)),
        Decl::Enum(_) => {}
        Decl::Union(u) => {
            if let Switch::Enum(i) = &u.switch {
                out.push(*i);
            }
            for v in &u.variants {
                match &v.shape {
                    VShape::Unit => {}
                    VShape::Tuple(t) | VShape::Named(_, t) => ty_refs(t, &mut out),
                }
            }
        }
    }
    out
}

fn renumber_ty(t: &mut Ty, removed: usize) {
    match t {
        Ty::Named(i) if *i > removed => *i -= 1,
        Ty::Vec(e) | Ty::Arr(e, _) => renumber_ty(e, removed),
        _ => {}
    }
}

fn remove_decl(case: &Case, k: usize) -> Case {
    let mut decls = case.decls.clone();
    decls.remove(k);
    for d in decls.iter_mut() {
        match d {
            Decl::Struct(s) => s.fields.iter_mut().for_each(|f| renumber_ty(&mut f.ty, k)),
            Decl::Enum(_) => {}
            Decl::Union(u) => {
                if let Switch::Enum(i) = &mut u.switch {
                    if *i > k {
                        *i -= 1;
                    }
                }
                for v in u.variants.iter_mut() {
                    match &mut v.shape {
                        VShape::Unit => {}
                        VShape::Tuple(t) | VShape::Named(_, t) => renumber_ty(t, k),
                    }
                }
            }
        }
    }
    let f = move |v: Val| -> Option<Val> {
        Some(match v {
            Val::Struct(i, fs) if i > k => Val::Struct(i - 1, fs),
            Val::Enum(i, x) if i > k => Val::Enum(i - 1, x),
            Val::Union(i, x, p) if i > k => Val::Union(i - 1, x, p),
            o => o,
        })
    };
    map_values(case, decls, &f)
}

fn is_prim(t: &Ty) -> bool {
    matches!(t, Ty::Prim(_))
}

pub fn reductions(case: &Case) -> Vec<Case> {
    let mut out: Vec<Case> = vec![];
    // values
    if !case.values.is_empty() {
        out.push(Case { decls: case.decls.clone(), values: vec![] });
        if case.values.len() > 1 {
            for v in case.values.iter().take(24) {
                out.push(Case { decls: case.decls.clone(), values: vec![v.clone()] });
            }
        }
    }
    // drop the root declaration: the previous declaration becomes the root (no values)
    if case.decls.len() > 1 {
        let mut decls = case.decls.clone();
        decls.pop();
        out.push(Case { decls, values: vec![] });
    }
    // unreferenced helper declarations
    let root = case.decls.len() - 1;
    for k in 0..root {
        let used = case.decls.iter().enumerate().any(|(j, d)| j != k && decl_refs(d).contains(&k));
        if !used {
            out.push(remove_decl(case, k));
        }
    }
    let enum_is_switch = |k: usize| case.decls.iter().any(|d| matches!(d, Decl::Union(u) if u.switch == Switch::Enum(k)));
    for (di, d) in case.decls.iter().enumerate() {
        match d {
            Decl::Struct(s) => {
                let with = |m: &dyn Fn(&mut StructD)| -> Vec<Decl> {
                    let mut decls = case.decls.clone();
                    if let Decl::Struct(x) = &mut decls[di] {
                        m(x);
                    }
                    decls
                };
                let same = |v: Val| Some(v);
                if s.name.is_some() {
                    out.push(map_values(case, with(&|x| x.name = None), &same));
                }
                if s.ext.is_some() {
                    out.push(map_values(case, with(&|x| x.ext = None), &same));
                }
                if s.nested {
                    out.push(map_values(case, with(&|x| x.nested = false), &same));
                }
                if s.split {
                    out.push(map_values(case, with(&|x| x.split = false), &same));
                }
                for j in 0..s.fields.len() {
                    // drop the field
                    let decls = with(&|x| {
                        x.fields.remove(j);
                    });
                    let f = move |v: Val| -> Option<Val> {
                        Some(match v {
                            Val::Struct(i, mut fs) if i == di => {
                                if j < fs.len() {
                                    fs.remove(j);
                                }
                                Val::Struct(i, fs)
                            }
                            o => o,
                        })
                    };
                    out.push(map_values(case, decls, &f));
                    let fld = &s.fields[j];
                    if fld.key {
                        out.push(map_values(case, with(&|x| x.fields[j].key = false), &same));
                    }
                    if fld.id.is_some() {
                        out.push(map_values(case, with(&|x| x.fields[j].id = None), &same));
                    }
                    if fld.hashid {
                        out.push(map_values(case, with(&|x| x.fields[j].hashid = false), &same));
                    }
                    if fld.default_value.is_some() {
                        out.push(map_values(case, with(&|x| x.fields[j].default_value = None), &same));
                    }
                    if fld.non_serialized {
                        out.push(map_values(case, with(&|x| x.fields[j].non_serialized = false), &same));
                    }
                    if fld.split {
                        out.push(map_values(case, with(&|x| x.fields[j].split = false), &same));
                    }
                    if fld.optional {
                        let decls = with(&|x| x.fields[j].optional = false);
                        let z = zero_ty(&case.decls, &fld.ty);
                        let f = move |v: Val| -> Option<Val> {
                            Some(match v {
                                Val::Struct(i, mut fs) if i == di => {
                                    if j < fs.len() {
                                        fs[j] = match fs[j].clone() {
                                            Val::Opt(Some(x)) => *x,
                                            _ => z.clone(),
                                        };
                                    }
                                    Val::Struct(i, fs)
                                }
                                o => o,
                            })
                        };
                        out.push(map_values(case, decls, &f));
                    }
                    if !is_prim(&fld.ty) {
                        let decls = with(&|x| {
                            x.fields[j].ty = Ty::Prim(Prim::U8);
                            x.fields[j].default_value = None;
                        });
                        let opt = fld.optional;
                        let f = move |v: Val| -> Option<Val> {
                            Some(match v {
                                Val::Struct(i, mut fs) if i == di => {
                                    if j < fs.len() {
                                        fs[j] = if opt {
                                            match &fs[j] {
                                                Val::Opt(None) => Val::Opt(None),
                                                _ => Val::Opt(Some(Box::new(Val::UInt(0)))),
                                            }
                                        } else {
                                            Val::UInt(0)
                                        };
                                    }
                                    Val::Struct(i, fs)
                                }
                                o => o,
                            })
                        };
                        out.push(map_values(case, decls, &f));
                    }
                }
            }
            Decl::Enum(e) => {
                let with = |m: &dyn Fn(&mut EnumD)| -> Vec<Decl> {
                    let mut decls = case.decls.clone();
                    if let Decl::Enum(x) = &mut decls[di] {
                        m(x);
                    }
                    decls
                };
                let same = |v: Val| Some(v);
                if e.name.is_some() {
                    out.push(map_values(case, with(&|x| x.name = None), &same));
                }
                if e.nested {
                    out.push(map_values(case, with(&|x| x.nested = false), &same));
                }
                if e.bit_bound.is_some() {
                    out.push(map_values(case, with(&|x| x.bit_bound = None), &same));
                }
                if e.split {
                    out.push(map_values(case, with(&|x| x.split = false), &same));
                }
                if !enum_is_switch(di) {
                    for k in 0..e.variants.len() {
                        if e.variants.len() > 1 {
                            let decls = with(&|x| {
                                x.variants.remove(k);
                            });
                            let f = move |v: Val| -> Option<Val> {
                                match v {
                                    Val::Enum(i, x) if i == di && x == k => None,
                                    Val::Enum(i, x) if i == di && x > k => Some(Val::Enum(i, x - 1)),
                                    o => Some(o),
                                }
                            };
                            out.push(map_values(case, decls, &f));
                        }
                        if e.variants[k].1.is_some() {
                            out.push(map_values(case, with(&|x| x.variants[k].1 = None), &same));
                        }
                    }
                }
            }
            Decl::Union(u) => {
                let with = |m: &dyn Fn(&mut UnionD)| -> Vec<Decl> {
                    let mut decls = case.decls.clone();
                    if let Decl::Union(x) = &mut decls[di] {
                        m(x);
                    }
                    decls
                };
                let same = |v: Val| Some(v);
                if u.name.is_some() {
                    out.push(map_values(case, with(&|x| x.name = None), &same));
                }
                if u.ext.is_some() {
                    out.push(map_values(case, with(&|x| x.ext = None), &same));
                }
                if u.nested {
                    out.push(map_values(case, with(&|x| x.nested = false), &same));
                }
                if u.key {
                    out.push(map_values(case, with(&|x| x.key = false), &same));
                }
                if u.split {
                    out.push(map_values(case, with(&|x| x.split = false), &same));
                }
                for k in 0..u.variants.len() {
                    let var = &u.variants[k];
                    let others_have_payload =
                        u.variants.iter().enumerate().any(|(j, v)| j != k && !matches!(v.shape, VShape::Unit));
                    if u.variants.len() > 1 && others_have_payload {
                        let decls = with(&|x| {
                            x.variants.remove(k);
                        });
                        let f = move |v: Val| -> Option<Val> {
                            match v {
                                Val::Union(i, x, _) if i == di && x == k => None,
                                Val::Union(i, x, p) if i == di && x > k => Some(Val::Union(i, x - 1, p)),
                                o => Some(o),
                            }
                        };
                        out.push(map_values(case, decls, &f));
                    }
                    if var.cases.len() > 1 || (var.default && !var.cases.is_empty()) {
                        for c in 0..var.cases.len() {
                            out.push(map_values(
                                case,
                                with(&|x| {
                                    x.variants[k].cases.remove(c);
                                }),
                                &same,
                            ));
                        }
                    }
                    if var.default && !var.cases.is_empty() {
                        out.push(map_values(case, with(&|x| x.variants[k].default = false), &same));
                    }
                    match &var.shape {
                        VShape::Tuple(t) | VShape::Named(_, t) if !is_prim(t) => {
                            let decls = with(&|x| {
                                x.variants[k].shape = match &x.variants[k].shape {
                                    VShape::Named(n, _) => VShape::Named(n.clone(), Ty::Prim(Prim::U8)),
                                    _ => VShape::Tuple(Ty::Prim(Prim::U8)),
                                }
                            });
                            let f = move |v: Val| -> Option<Val> {
                                Some(match v {
                                    Val::Union(i, x, Some(_)) if i == di && x == k => {
                                        Val::Union(i, x, Some(Box::new(Val::UInt(0))))
                                    }
                                    o => o,
                                })
                            };
                            out.push(map_values(case, decls, &f));
                        }
                        _ => {}
                    }
                    if others_have_payload && !matches!(var.shape, VShape::Unit) {
                        let decls = with(&|x| x.variants[k].shape = VShape::Unit);
                        let f = move |v: Val| -> Option<Val> {
                            Some(match v {
                                Val::Union(i, x, _) if i == di && x == k => Val::Union(i, x, None),
                                o => o,
                            })
                        };
                        out.push(map_values(case, decls, &f));
                    }
                }
            }
        }
    }
    // keep only valid, strictly smaller, distinct candidates
    let size = |c: &Case| serde_json::to_string(c).map(|s| s.len()).unwrap_or(usize::MAX);
    let cur = size(case);
    let mut seen: Vec<Case> = vec![];
    for c in out {
        let valid = c.decls.iter().all(|d| match d {
            Decl::Struct(s) => ids_valid(&s.fields),
            _ => true,
        });
        if valid && size(&c) < cur && !seen.contains(&c) {
            seen.push(c);
        }
    }
    seen.sort_by_key(|c| size(c));
    seen
}
