//! AST of generated `#[derive(DdsType)]` declarations and values, with rendering to Rust source.

use serde::{Deserialize, Serialize};

#[derive(Clone, Copy, Debug, PartialEq, Eq, Serialize, Deserialize)]
pub enum Prim {
    U8,
    I8,
    U16,
    I16,
    U32,
    I32,
    U64,
    I64,
    F32,
    F64,
    Bool,
    Char,
}

pub const ALL_PRIMS: [Prim; 12] = [
    Prim::U8,
    Prim::I8,
    Prim::U16,
    Prim::I16,
    Prim::U32,
    Prim::I32,
    Prim::U64,
    Prim::I64,
    Prim::F32,
    Prim::F64,
    Prim::Bool,
    Prim::Char,
];

impl Prim {
    pub fn rust(&self) -> &'static str {
        match self {
            Prim::U8 => "u8",
            Prim::I8 => "i8",
            Prim::U16 => "u16",
            Prim::I16 => "i16",
            Prim::U32 => "u32",
            Prim::I32 => "i32",
            Prim::U64 => "u64",
            Prim::I64 => "i64",
            Prim::F32 => "f32",
            Prim::F64 => "f64",
            Prim::Bool => "bool",
            Prim::Char => "char",
        }
    }
    /// TypeKind names accepted for this Rust type (XTypes 1.3 table 13: uint8 and byte share the wire form)
    pub fn kinds(&self) -> &'static [&'static str] {
        match self {
            Prim::U8 => &["UINT8", "BYTE"],
            Prim::I8 => &["INT8"],
            Prim::U16 => &["UINT16"],
            Prim::I16 => &["INT16"],
            Prim::U32 => &["UINT32"],
            Prim::I32 => &["INT32"],
            Prim::U64 => &["UINT64"],
            Prim::I64 => &["INT64"],
            Prim::F32 => &["FLOAT32"],
            Prim::F64 => &["FLOAT64"],
            Prim::Bool => &["BOOLEAN"],
            Prim::Char => &["CHAR8"],
        }
    }
    /// inclusive value range for integer-like types
    pub fn int_range(&self) -> Option<(i128, i128)> {
        Some(match self {
            Prim::U8 => (0, u8::MAX as i128),
            Prim::I8 => (i8::MIN as i128, i8::MAX as i128),
            Prim::U16 => (0, u16::MAX as i128),
            Prim::I16 => (i16::MIN as i128, i16::MAX as i128),
            Prim::U32 => (0, u32::MAX as i128),
            Prim::I32 => (i32::MIN as i128, i32::MAX as i128),
            Prim::U64 => (0, u64::MAX as i128),
            Prim::I64 => (i64::MIN as i128, i64::MAX as i128),
            _ => return None,
        })
    }
}

#[derive(Clone, Debug, PartialEq, Serialize, Deserialize)]
pub enum Ty {
    Prim(Prim),
    Str,
    Vec(Box<Ty>),
    Arr(Box<Ty>, u32),
    /// index of an earlier declaration of the same case
    Named(usize),
}

#[derive(Clone, Copy, Debug, PartialEq, Eq, Serialize, Deserialize)]
pub enum Ext {
    Final,
    Appendable,
    Mutable,
}

impl Ext {
    pub fn attr(&self) -> &'static str {
        match self {
            Ext::Final => "final",
            Ext::Appendable => "appendable",
            Ext::Mutable => "mutable",
        }
    }
    pub fn debug_name(&self) -> &'static str {
        match self {
            Ext::Final => "Final",
            Ext::Appendable => "Appendable",
            Ext::Mutable => "Mutable",
        }
    }
}

/// Values carry the declaration they belong to so that they can be rewritten without type context.
#[derive(Clone, Debug, PartialEq, Serialize, Deserialize)]
pub enum Val {
    Int(i64),
    UInt(u64),
    F32(u32),
    F64(u64),
    Bool(bool),
    Char(u32),
    Str(String),
    Seq(Vec<Val>),
    Arr(Vec<Val>),
    Opt(Option<Box<Val>>),
    Struct(usize, Vec<Val>),
    Enum(usize, usize),
    Union(usize, usize, Option<Box<Val>>),
}

#[derive(Clone, Debug, PartialEq, Serialize, Deserialize)]
pub struct Field {
    /// None for tuple-struct fields
    pub name: Option<String>,
    pub ty: Ty,
    pub optional: bool,
    pub key: bool,
    pub id: Option<u32>,
    pub hashid: bool,
    pub default_value: Option<Val>,
    pub non_serialized: bool,
    /// render every attribute item in its own `#[dust_dds(..)]`
    pub split: bool,
}

#[derive(Clone, Debug, PartialEq, Serialize, Deserialize)]
pub struct StructD {
    pub ident: String,
    pub name: Option<String>,
    pub ext: Option<Ext>,
    pub nested: bool,
    pub tuple: bool,
    pub split: bool,
    pub fields: Vec<Field>,
}

#[derive(Clone, Debug, PartialEq, Serialize, Deserialize)]
pub struct EnumD {
    pub ident: String,
    pub name: Option<String>,
    pub nested: bool,
    pub bit_bound: Option<u8>,
    pub split: bool,
    /// (identifier, explicit discriminant)
    pub variants: Vec<(String, Option<i64>)>,
}

impl EnumD {
    /// value of every literal under Rust's (and the macro's documented) rule: explicit or previous + 1
    pub fn values(&self) -> Vec<i64> {
        let mut out = vec![];
        let mut next = 0i64;
        for (_, d) in &self.variants {
            let v = d.unwrap_or(next);
            out.push(v);
            next = v + 1;
        }
        out
    }
}

#[derive(Clone, Debug, PartialEq, Serialize, Deserialize)]
pub enum Switch {
    Prim(Prim),
    Enum(usize),
}

#[derive(Clone, Debug, PartialEq, Serialize, Deserialize)]
pub enum VShape {
    Unit,
    Tuple(Ty),
    Named(String, Ty),
}

#[derive(Clone, Debug, PartialEq, Serialize, Deserialize)]
pub struct UVariant {
    pub ident: String,
    pub shape: VShape,
    /// numeric label values (char code, 0/1 for bool, literal value for an enum discriminator)
    pub cases: Vec<i64>,
    pub default: bool,
}

#[derive(Clone, Debug, PartialEq, Serialize, Deserialize)]
pub struct UnionD {
    pub ident: String,
    pub name: Option<String>,
    pub ext: Option<Ext>,
    pub nested: bool,
    pub switch: Switch,
    pub key: bool,
    pub split: bool,
    pub variants: Vec<UVariant>,
}

#[derive(Clone, Debug, PartialEq, Serialize, Deserialize)]
pub enum Decl {
    Struct(StructD),
    Enum(EnumD),
    Union(UnionD),
}

impl Decl {
    pub fn ident(&self) -> &str {
        match self {
            Decl::Struct(s) => &s.ident,
            Decl::Enum(e) => &e.ident,
            Decl::Union(u) => &u.ident,
        }
    }
    pub fn declared_name(&self) -> &str {
        match self {
            Decl::Struct(s) => s.name.as_deref().unwrap_or(&s.ident),
            Decl::Enum(e) => e.name.as_deref().unwrap_or(&e.ident),
            Decl::Union(u) => u.name.as_deref().unwrap_or(&u.ident),
        }
    }
}

/// One generated case: declarations (later ones may use earlier ones; the last one is the root type)
/// and values of the root type.
#[derive(Clone, Debug, PartialEq, Serialize, Deserialize)]
pub struct Case {
    pub decls: Vec<Decl>,
    pub values: Vec<Val>,
}

// ---------------------------------------------------------------------------------------------
// zero values, normalisation (what a round trip is allowed to change)

pub fn zero_ty(decls: &[Decl], ty: &Ty) -> Val {
    match ty {
        Ty::Prim(p) => match p {
            Prim::F32 => Val::F32(0),
            Prim::F64 => Val::F64(0),
            Prim::Bool => Val::Bool(false),
            Prim::Char => Val::Char(0),
            Prim::U8 | Prim::U16 | Prim::U32 | Prim::U64 => Val::UInt(0),
            _ => Val::Int(0),
        },
        Ty::Str => Val::Str(String::new()),
        Ty::Vec(_) => Val::Seq(vec![]),
        Ty::Arr(e, n) => Val::Arr((0..*n).map(|_| zero_ty(decls, e)).collect()),
        Ty::Named(i) => zero_decl(decls, *i),
    }
}

pub fn zero_field(decls: &[Decl], f: &Field) -> Val {
    if f.optional { Val::Opt(None) } else { zero_ty(decls, &f.ty) }
}

pub fn zero_decl(decls: &[Decl], i: usize) -> Val {
    match &decls[i] {
        Decl::Struct(s) => Val::Struct(i, s.fields.iter().map(|f| zero_field(decls, f)).collect()),
        Decl::Enum(_) => Val::Enum(i, 0),
        Decl::Union(u) => {
            let payload = match &u.variants[0].shape {
                VShape::Unit => None,
                VShape::Tuple(t) | VShape::Named(_, t) => Some(Box::new(zero_ty(decls, t))),
            };
            Val::Union(i, 0, payload)
        }
    }
}

/// The value a faithful conversion to dynamic data and back must produce: identical except that
/// non-serialized members come back as their default (`default_value` or `Default::default()`).
pub fn normalize(decls: &[Decl], v: &Val) -> Val {
    match v {
        Val::Seq(xs) => Val::Seq(xs.iter().map(|x| normalize(decls, x)).collect()),
        Val::Arr(xs) => Val::Arr(xs.iter().map(|x| normalize(decls, x)).collect()),
        Val::Opt(o) => Val::Opt(o.as_ref().map(|x| Box::new(normalize(decls, x)))),
        Val::Struct(i, fs) => {
            let Decl::Struct(s) = &decls[*i] else { return v.clone() };
            let out = fs
                .iter()
                .zip(&s.fields)
                .map(|(x, f)| {
                    if f.non_serialized {
                        f.default_value.clone().unwrap_or_else(|| zero_field(decls, f))
                    } else {
                        normalize(decls, x)
                    }
                })
                .collect();
            Val::Struct(*i, out)
        }
        Val::Union(i, k, p) => Val::Union(*i, *k, p.as_ref().map(|x| Box::new(normalize(decls, x)))),
        other => other.clone(),
    }
}

// ---------------------------------------------------------------------------------------------
// rendering

pub fn render_ty(decls: &[Decl], ty: &Ty) -> String {
    match ty {
        Ty::Prim(p) => p.rust().to_string(),
        Ty::Str => "String".to_string(),
        Ty::Vec(e) => format!("Vec<{}>", render_ty(decls, e)),
        Ty::Arr(e, n) => format!("[{}; {}]", render_ty(decls, e), n),
        Ty::Named(i) => decls[*i].ident().to_string(),
    }
}

fn render_str(s: &str) -> String {
    let mut o = String::from("String::from(\"");
    for c in s.chars() {
        if c.is_ascii_alphanumeric() || c == ' ' || c == '_' {
            o.push(c);
        } else {
            o.push_str(&format!("\\u{{{:x}}}", c as u32));
        }
    }
    o.push_str("\")");
    o
}

pub fn render_val(decls: &[Decl], v: &Val) -> String {
    match v {
        Val::Int(x) => format!("{x}"),
        Val::UInt(x) => format!("{x}"),
        Val::F32(b) => format!("f32::from_bits(0x{b:08x})"),
        Val::F64(b) => format!("f64::from_bits(0x{b:016x})"),
        Val::Bool(b) => format!("{b}"),
        Val::Char(c) => format!("'\\u{{{c:x}}}'"),
        Val::Str(s) => render_str(s),
        Val::Seq(xs) => format!("vec![{}]", xs.iter().map(|x| render_val(decls, x)).collect::<Vec<_>>().join(", ")),
        Val::Arr(xs) => format!("[{}]", xs.iter().map(|x| render_val(decls, x)).collect::<Vec<_>>().join(", ")),
        Val::Opt(None) => "None".to_string(),
        Val::Opt(Some(x)) => format!("Some({})", render_val(decls, x)),
        Val::Struct(i, fs) => {
            let Decl::Struct(s) = &decls[*i] else { return "/*bad*/".into() };
            if s.fields.is_empty() {
                return if s.tuple { format!("{}()", s.ident) } else { format!("{} {{}}", s.ident) };
            }
            if s.tuple {
                format!("{}({})", s.ident, fs.iter().map(|x| render_val(decls, x)).collect::<Vec<_>>().join(", "))
            } else {
                let parts: Vec<String> = fs
                    .iter()
                    .zip(&s.fields)
                    .map(|(x, f)| format!("{}: {}", f.name.as_deref().unwrap_or("_"), render_val(decls, x)))
                    .collect();
                format!("{} {{ {} }}", s.ident, parts.join(", "))
            }
        }
        Val::Enum(i, k) => {
            let Decl::Enum(e) = &decls[*i] else { return "/*bad*/".into() };
            format!("{}::{}", e.ident, e.variants[*k].0)
        }
        Val::Union(i, k, p) => {
            let Decl::Union(u) = &decls[*i] else { return "/*bad*/".into() };
            let var = &u.variants[*k];
            match (&var.shape, p) {
                (VShape::Unit, _) => format!("{}::{}", u.ident, var.ident),
                (VShape::Tuple(_), Some(x)) => format!("{}::{}({})", u.ident, var.ident, render_val(decls, x)),
                (VShape::Named(f, _), Some(x)) => {
                    format!("{}::{} {{ {}: {} }}", u.ident, var.ident, f, render_val(decls, x))
                }
                _ => "/*bad*/".into(),
            }
        }
    }
}

fn attr(items: &[String], split: bool) -> String {
    if items.is_empty() {
        String::new()
    } else if split {
        items.iter().map(|i| format!("#[dust_dds({i})]\n")).collect()
    } else {
        format!("#[dust_dds({})]\n", items.join(", "))
    }
}

fn render_label(decls: &[Decl], sw: &Switch, v: i64) -> String {
    match sw {
        Switch::Prim(Prim::Char) => format!("'\\u{{{:x}}}'", v),
        Switch::Prim(Prim::Bool) => format!("{}", v != 0),
        Switch::Prim(_) => format!("{v}"),
        Switch::Enum(i) => {
            let Decl::Enum(e) = &decls[*i] else { return "/*bad*/".into() };
            let vals = e.values();
            let k = vals.iter().position(|x| *x == v).unwrap_or(0);
            format!("{}::{}", e.ident, e.variants[k].0)
        }
    }
}

const DERIVES: &str = "#[derive(Debug, Clone, PartialEq, DdsType)]\n";

pub fn render_decl(decls: &[Decl], i: usize) -> String {
    let mut o = String::new();
    match &decls[i] {
        Decl::Struct(s) => {
            o.push_str(DERIVES);
            let mut items = vec![];
            if let Some(n) = &s.name {
                items.push(format!("name = \"{n}\""));
            }
            if let Some(e) = &s.ext {
                items.push(format!("extensibility = \"{}\"", e.attr()));
            }
            if s.nested {
                items.push("nested".to_string());
            }
            o.push_str(&attr(&items, s.split));
            let fields: Vec<String> = s
                .fields
                .iter()
                .map(|f| {
                    let mut items = vec![];
                    if f.key {
                        items.push("key".to_string());
                    }
                    if let Some(id) = f.id {
                        items.push(format!("id = {id}"));
                    }
                    if f.hashid {
                        items.push("hashid".to_string());
                    }
                    if f.optional {
                        items.push("optional".to_string());
                    }
                    if let Some(d) = &f.default_value {
                        items.push(format!("default_value = {}", render_val(decls, d)));
                    }
                    if f.non_serialized {
                        items.push("non_serialized".to_string());
                    }
                    let a = attr(&items, f.split);
                    let t = render_ty(decls, &f.ty);
                    let t = if f.optional { format!("Option<{t}>") } else { t };
                    match &f.name {
                        Some(n) => format!("    {}pub {}: {},\n", a.replace('\n', "\n    "), n, t),
                        None => format!("    {}pub {},\n", a.replace('\n', "\n    "), t),
                    }
                })
                .collect();
            if s.tuple {
                o.push_str(&format!("pub struct {}(\n{});\n", s.ident, fields.concat()));
            } else {
                o.push_str(&format!("pub struct {} {{\n{}}}\n", s.ident, fields.concat()));
            }
        }
        Decl::Enum(e) => {
            o.push_str(DERIVES);
            let mut items = vec![];
            if let Some(n) = &e.name {
                items.push(format!("name = \"{n}\""));
            }
            if e.nested {
                items.push("nested".to_string());
            }
            if let Some(b) = e.bit_bound {
                items.push(format!("bit_bound = \"{b}\""));
            }
            o.push_str(&attr(&items, e.split));
            o.push_str(&format!("pub enum {} {{\n", e.ident));
            for (n, d) in &e.variants {
                match d {
                    Some(d) => o.push_str(&format!("    {n} = {d},\n")),
                    None => o.push_str(&format!("    {n},\n")),
                }
            }
            o.push_str("}\n");
        }
        Decl::Union(u) => {
            o.push_str(DERIVES);
            let mut items = vec![];
            let sw = match &u.switch {
                Switch::Prim(p) => p.rust().to_string(),
                Switch::Enum(i) => decls[*i].ident().to_string(),
            };
            if u.key {
                items.push(format!("switch(key, {sw})"));
            } else {
                items.push(format!("switch({sw})"));
            }
            if let Some(n) = &u.name {
                items.push(format!("name = \"{n}\""));
            }
            if let Some(e) = &u.ext {
                items.push(format!("extensibility = \"{}\"", e.attr()));
            }
            if u.nested {
                items.push("nested".to_string());
            }
            o.push_str(&attr(&items, u.split));
            o.push_str(&format!("pub enum {} {{\n", u.ident));
            for v in &u.variants {
                let mut items: Vec<String> =
                    v.cases.iter().map(|c| format!("case = {}", render_label(decls, &u.switch, *c))).collect();
                if v.default {
                    items.push("default".to_string());
                }
                let a = attr(&items, false);
                o.push_str(&format!("    {}", a.replace('\n', "\n    ")));
                match &v.shape {
                    VShape::Unit => o.push_str(&format!("{},\n", v.ident)),
                    VShape::Tuple(t) => o.push_str(&format!("{}({}),\n", v.ident, render_ty(decls, t))),
                    VShape::Named(f, t) => o.push_str(&format!("{} {{ {}: {} }},\n", v.ident, f, render_ty(decls, t))),
                }
            }
            o.push_str("}\n");
        }
    }
    // every generated type gets a Default so that it can be used wherever the macro needs one
    // (non_serialized / optional members, tuple members of mutable types)
    let z = zero_decl(decls, i);
    o.push_str(&format!(
        "impl Default for {} {{\n    fn default() -> Self {{\n        {}\n    }}\n}}\n",
        decls[i].ident(),
        render_val(decls, &z)
    ));
    o
}

/// Declarations as the user would write them (replay files, samples)
pub fn render_decls(case: &Case) -> String {
    (0..case.decls.len()).map(|i| render_decl(&case.decls, i)).collect::<Vec<_>>().join("\n")
}

/// The module placed in the generated crate for this case, and the first line (1-based) of every
/// declaration in it (used to attribute compiler errors to a declaration).
pub fn render_unit(case: &Case, n: usize) -> (String, Vec<usize>) {
    let mut o = String::new();
    o.push_str("#![allow(warnings)]\nuse dust_dds::infrastructure::type_support::DdsType;\nuse dust_dds::xtypes::type_support::{Type, TypeSupport};\n\n");
    let mut starts = vec![];
    for i in 0..case.decls.len() {
        starts.push(o.matches('\n').count() + 1);
        o.push_str(&render_decl(&case.decls, i));
        o.push('\n');
    }
    o.push_str("\npub fn run() {\n");
    for d in case.decls.iter() {
        o.push_str(&format!(
            "    crate::support::dump_type({n}, \"{}\", &<{} as Type>::TYPE);\n",
            d.ident(),
            d.ident()
        ));
        if let Decl::Enum(e) = d {
            for (lit, _) in e.variants.iter() {
                o.push_str(&format!(
                    "    crate::support::enum_val({n}, \"{id}\", \"{lit}\", {id}::{lit} as i64, {id}::{lit});\n",
                    id = e.ident
                ));
            }
        }
    }
    let root = case.decls.last().map(|d| d.ident().to_string()).unwrap_or_default();
    o.push_str("    let mut ok = 0usize;\n");
    for (i, v) in case.values.iter().enumerate() {
        let exp = normalize(&case.decls, v);
        if &exp == v {
            o.push_str(&format!(
                "    {{ let v: {root} = {}; ok += crate::support::rt::<{root}>({n}, {i}, v.clone(), v); }}\n",
                render_val(&case.decls, v)
            ));
        } else {
            o.push_str(&format!(
                "    ok += crate::support::rt::<{root}>({n}, {i}, {}, {});\n",
                render_val(&case.decls, v),
                render_val(&case.decls, &exp)
            ));
        }
    }
    o.push_str(&format!("    crate::support::rt_done({n}, ok, {});\n}}\n", case.values.len()));
    (o, starts)
}

pub fn stub_unit() -> String {
    "pub fn run() {}\n".to_string()
}
