//! C40 — `#[derive(DdsType)]` describes and converts types faithfully.
//! Generated declarations + values are compiled into one throw-away crate per batch against
//! ${VERIF_REPO:-/repo}/dds; its `main` performs the round trips and prints the type descriptions,
//! which are compared with the declarations here.

pub mod ast;
pub mod r#gen;
pub mod oracle;
pub mod shrink;

use crate::cb::{self, GenCrate};
use crate::dump::{self, Finding, finding};
use crate::rng::Src;
use ast::*;
use serde_json::{Value, json};
use std::collections::BTreeMap;
use std::time::Duration;
use vcore::{Ctx, Failure, Known, Meta, Report};

pub const RULE: &str = "case (1-4 declarations, last one is the root) uses attributes of >= 2 different classes \
(container name/extensibility/nested, member-id id/hashid, key, optional, default_value/non_serialized, bit_bound, switch, case/default) \
or nests generated types to depth >= 2";

pub fn case_json(c: &Case) -> Value {
    json!({
        "declarations": render_decls(c),
        "values": c.values.iter().map(|v| render_val(&c.decls, v)).collect::<Vec<_>>(),
        "ast": serde_json::to_value(c).unwrap(),
    })
}

pub struct BatchOutcome {
    pub findings: Vec<Vec<Finding>>,
    pub build_s: f64,
    pub builds: usize,
}

/// Builds one crate holding all `cases` and evaluates them. Err = infrastructure problem.
pub fn evaluate_batch(cases: &[Case], run: &str, name: &str) -> Result<BatchOutcome, String> {
    let krate = GenCrate::create(run, name)?;
    let mut main = String::from("#![allow(warnings)]\nmod support;\n");
    for i in 0..cases.len() {
        main.push_str(&format!("mod c{i};\n"));
    }
    main.push_str("fn main() {\n    support::init();\n");
    for i in 0..cases.len() {
        main.push_str(&format!("    c{i}::run();\n"));
    }
    main.push_str("}\n");
    krate.write("src/main.rs", &main);
    let mut starts: Vec<Vec<usize>> = vec![];
    for (i, c) in cases.iter().enumerate() {
        let (text, st) = render_unit(c, i);
        krate.write(&format!("src/c{i}.rs"), &text);
        starts.push(st);
    }
    let (failed, build_s, builds) = cb::build_excluding(&krate, "c", &|_| stub_unit(), 8)?;
    let stdout = krate.run(Duration::from_secs(120))?;
    let outs = dump::parse_stdout(&stdout);
    let empty = dump::CaseOut::default();
    let mut findings = vec![];
    for (i, c) in cases.iter().enumerate() {
        if let Some(ds) = failed.get(&i) {
            let d = &ds[0];
            // declaration the error points into
            let di = starts[i].iter().rposition(|s| *s <= d.line.max(1)).unwrap_or(c.decls.len() - 1);
            let root = match c.decls.get(di) {
                Some(Decl::Struct(_)) => "struct",
                Some(Decl::Enum(_)) => "enum",
                _ => "union",
            };
            findings.push(vec![finding(
                format!("C40:does-not-compile:{}:{}", root, cb::diag_key(d)),
                format!(
                    "a declaration within the documented attribute language does not compile: [{}] {} (at `{}`)",
                    d.code,
                    d.message,
                    dump::trunc(&d.snippet, 80)
                ),
            )]);
            continue;
        }
        findings.push(oracle::check_case(c, outs.get(&i).unwrap_or(&empty)));
    }
    Ok(BatchOutcome { findings, build_s, builds })
}

/// Delta debugging at the level of the declaration: smallest single-step reduction that still shows
/// `sig`, repeated; every round is one build of all candidates.
fn minimise(case: &Case, sig: &str, tag: &str, max_rounds: usize) -> (Case, usize) {
    let mut cur = case.clone();
    let mut rounds = 0;
    while rounds < max_rounds {
        let cands = shrink::reductions(&cur);
        if cands.is_empty() {
            break;
        }
        let cands: Vec<Case> = cands.into_iter().take(80).collect();
        rounds += 1;
        let Ok(out) = evaluate_batch(&cands, &format!("{tag}-min"), &format!("genout_{}_min", tag.to_lowercase().replace('-', "_")))
        else {
            break;
        };
        let mut next = None;
        for (c, f) in cands.iter().zip(&out.findings) {
            if f.iter().any(|x| x.sig == sig) {
                next = Some(c.clone());
                break;
            }
        }
        match next {
            Some(c) => cur = c,
            None => break,
        }
    }
    (cur, rounds)
}

pub fn run(ctx: &Ctx) -> ! {
    let mut report = Report::default();
    let tag = format!("C40-{}", ctx.tier.as_str());
    let crate_name = format!("genout_c40_{}", ctx.tier.as_str());
    if let Some(path) = &ctx.replay {
        let v = vcore::load_replay(path);
        let case: Case = match serde_json::from_value(v["ast"].clone()) {
            Ok(c) => c,
            Err(e) => {
                eprintln!("replay file does not hold a C40 case: {e}");
                std::process::exit(2)
            }
        };
        println!("--- declarations ---\n{}", render_decls(&case));
        println!("--- {} value(s) ---", case.values.len());
        for v in &case.values {
            println!("{}", render_val(&case.decls, v));
        }
        match evaluate_batch(std::slice::from_ref(&case), "C40-replay", "genout_c40_replay") {
            Ok(out) => {
                report.stats.evaluations = 1;
                for f in &out.findings[0] {
                    println!("oracle: {} -- {}", f.sig, f.what);
                    report.failures.push(Failure {
                        signature: f.sig.clone(),
                        what: f.what.clone(),
                        case: case_json(&case),
                        shrunk_from: None,
                        shrunk_to: None,
                    });
                }
                if out.findings[0].is_empty() {
                    println!("oracle: no complaint");
                }
            }
            Err(e) => report.inconclusive.push(e),
        }
        vcore::finish(ctx, Meta { rule: RULE, assumptions: ASSUMPTIONS, nontrivial_floor: 0 }, report);
    }

    let batches: usize = ctx.pick(1, 6);
    let per_batch: usize = ctx.pick(120, 250);
    let nvalues = 20;
    let known = Known::load(&ctx.id);
    let mut src = Src::new(ctx.rng_seed("c40"));
    // signature -> (smallest failing case, what)
    let mut unknown: BTreeMap<String, (Case, String)> = BTreeMap::new();
    let mut build_s = 0.0;
    let mut builds = 0;
    for b in 0..batches {
        let cases: Vec<Case> = (0..per_batch).map(|_| r#gen::gen_case(&mut src, nvalues)).collect();
        let out = match evaluate_batch(&cases, &tag, &crate_name) {
            Ok(o) => o,
            Err(e) => {
                report.inconclusive.push(format!("batch {b}: {e}"));
                break;
            }
        };
        build_s += out.build_s;
        builds += out.builds;
        for (c, fs) in cases.iter().zip(&out.findings) {
            let (classes, nontrivial) = oracle::classes(c);
            let key = vcore::hash_json(&serde_json::to_value(c).unwrap());
            report.stats.case(key, nontrivial, &classes);
            report.stats.class_n("values", c.values.len() as u64);
            if nontrivial && report.stats.wants_sample() {
                report.stats.sample(json!({"declarations": render_decls(c), "values": c.values.len()}));
            }
            let mut seen = vec![];
            for f in fs {
                if seen.contains(&f.sig) {
                    continue;
                }
                seen.push(f.sig.clone());
                if f.sig.starts_with("harness:") {
                    report.inconclusive.push(format!("{}: {}", f.sig, f.what));
                } else if known.matches(&f.sig) {
                    *report.stats.excluded_known.entry(f.sig.clone()).or_insert(0) += 1;
                } else {
                    let size = serde_json::to_string(c).unwrap().len();
                    match unknown.get(&f.sig) {
                        Some((old, _)) if serde_json::to_string(old).unwrap().len() <= size => {}
                        _ => {
                            unknown.insert(f.sig.clone(), (c.clone(), f.what.clone()));
                        }
                    }
                }
            }
        }
    }
    report.stats.extra.insert("generated_crate_build_s".into(), json!(build_s));
    report.stats.extra.insert("generated_crate_builds".into(), json!(builds));
    // minimise each new signature (bounded number of rebuilds overall)
    // bounded number of rebuilds, shared fairly between the new signatures
    let mut budget: usize = ctx.pick(16, 60);
    let per_sig = (budget / unknown.len().max(1)).clamp(2, ctx.pick(8, 12));
    for (sig, (case, what)) in unknown {
        let from = serde_json::to_string(&case).unwrap().len() as u64;
        let rounds = per_sig.min(budget.max(1));
        let (min, used) = if budget > 0 { minimise(&case, &sig, &tag, rounds) } else { (case.clone(), 0) };
        budget = budget.saturating_sub(used);
        // re-evaluate the minimal case for the explanation
        let what = match evaluate_batch(std::slice::from_ref(&min), &format!("{tag}-min"), &format!("genout_{}_min", tag.to_lowercase().replace('-', "_"))) {
            Ok(o) => {
                let w = o.findings[0].iter().find(|f| f.sig == sig).map(|f| f.what.clone()).unwrap_or(what);
                if sig.contains(":does-not-compile:") {
                    format!("{w}; minimal declaration: {}", render_decls(&min).split_whitespace().collect::<Vec<_>>().join(" "))
                } else {
                    w
                }
            }
            Err(_) => what,
        };
        let to = serde_json::to_string(&min).unwrap().len() as u64;
        report.failures.push(Failure {
            signature: sig,
            what,
            case: case_json(&min),
            shrunk_from: Some(from),
            shrunk_to: Some(to),
        });
    }
    let floor = ctx.pick(60, 600);
    vcore::finish(ctx, Meta { rule: RULE, assumptions: ASSUMPTIONS, nontrivial_floor: floor }, report);
}

pub const ASSUMPTIONS: &[&str] = &[
    "generated declarations stay inside the documented attribute language (README section on #[derive(DdsType)]): no external/try_construct/base_type, optional only on Option<T>, no optional together with key or default_value",
    "equality after the round trip is modulo non_serialized members, which must come back as default_value / Default::default()",
    "member ids follow XTypes 1.3 7.3.1.2.1.1: explicit, MD5-based & 0x0FFFFFFF for hashid, else previous member id + 1; a non-serialized member may or may not consume a sequential id",
    "not checked (statement silent): bounds of Vec/String, must_understand, union member ids, enum literal lists (the description has no place for them; literal values are checked through the dynamic data)",
    "generated programs are built with the dev profile (overflow checks on) against VERIF_REPO (default /repo)",
];
