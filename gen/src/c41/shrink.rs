//! Single-step reductions of an IDL specification (used by the delta-debugging loops). Every
//! candidate is again a valid specification of the generated subset: dangling references are
//! replaced by `long`, enumerator labels follow their enum, member ids stay distinct.

use super::ast::*;
use super::oracle::ids_valid;

fn simplify_specs(t: &TSpec) -> Vec<TSpec> {
    let mut out = vec![];
    match t {
        TSpec::Prim(IPrim::Long) => {}
        TSpec::Prim(_) => out.push(TSpec::Prim(IPrim::Long)),
        TSpec::Str(Some(_)) => {
            out.push(TSpec::Prim(IPrim::Long));
            out.push(TSpec::Str(None));
        }
        TSpec::Str(None) => out.push(TSpec::Prim(IPrim::Long)),
        TSpec::WStr(b) => {
            out.push(TSpec::Prim(IPrim::Long));
            out.push(TSpec::Str(*b));
            if b.is_some() {
                out.push(TSpec::WStr(None));
            }
        }
        TSpec::Seq(e, b) => {
            out.push(TSpec::Prim(IPrim::Long));
            out.push((**e).clone());
            if b.is_some() {
                out.push(TSpec::Seq(e.clone(), None));
            }
            for se in simplify_specs(e) {
                out.push(TSpec::Seq(Box::new(se), *b));
            }
        }
        TSpec::Ref(p, st) => {
            out.push(TSpec::Prim(IPrim::Long));
            if *st == RefStyle::Absolute {
                out.push(TSpec::Ref(p.clone(), RefStyle::Relative));
            }
        }
    }
    out
}

fn simplify_dims(d: &[u32]) -> Vec<Vec<u32>> {
    let mut out = vec![];
    if !d.is_empty() {
        out.push(vec![]);
        if d.len() > 1 {
            out.push(vec![d[0]]);
        }
        if d.iter().any(|x| *x > 2) {
            out.push(d.iter().map(|x| (*x).min(2)).collect());
        }
    }
    out
}

/// all variants of `defs` with exactly one edit applied
fn edits(defs: &[Def]) -> Vec<Vec<Def>> {
    let mut out: Vec<Vec<Def>> = vec![];
    let replace = |i: usize, with: Vec<Def>| -> Vec<Def> {
        let mut v = defs.to_vec();
        v.splice(i..=i, with);
        v
    };
    // keep a single definition (references to dropped ones become `long` in `fixup`), or one plus
    // everything declared before it
    if defs.len() > 1 {
        for i in 0..defs.len() {
            out.push(vec![defs[i].clone()]);
        }
        for i in 1..defs.len() {
            out.push(defs[..i].to_vec());
        }
    }
    for (i, d) in defs.iter().enumerate() {
        // remove the definition
        out.push(replace(i, vec![]));
        // replace it by an empty struct of the same name (keeps references to it valid)
        match d {
            Def::Enum { name, .. } | Def::Union { name, .. } => {
                out.push(replace(i, vec![Def::Struct { name: name.clone(), ext: None, nested: false, members: vec![] }]));
            }
            Def::Typedef { declarators, .. } if declarators.len() == 1 => {
                out.push(replace(i, vec![Def::Struct { name: declarators[0].0.clone(), ext: None, nested: false, members: vec![] }]));
            }
            Def::Struct { name, members, .. } if !members.is_empty() => {
                out.push(replace(i, vec![Def::Struct { name: name.clone(), ext: None, nested: false, members: vec![] }]));
            }
            _ => {}
        }
        match d {
            Def::Module { name, defs: inner } => {
                // unwrap the module (paths are fixed by `fixup`)
                out.push(replace(i, inner.clone()));
                for v in edits(inner) {
                    if !v.is_empty() {
                        out.push(replace(i, vec![Def::Module { name: name.clone(), defs: v }]));
                    }
                }
            }
            Def::Struct { name, ext, nested, members } => {
                let mk = |ext: Option<Ext>, nested: bool, members: Vec<Member>| Def::Struct { name: name.clone(), ext, nested, members };
                if ext.is_some() {
                    out.push(replace(i, vec![mk(None, *nested, members.clone())]));
                }
                if *nested {
                    out.push(replace(i, vec![mk(*ext, false, members.clone())]));
                }
                if members.len() > 1 {
                    for m in members {
                        out.push(replace(i, vec![mk(*ext, *nested, vec![m.clone()])]));
                    }
                }
                for (j, m) in members.iter().enumerate() {
                    let with_m = |nm: Option<Member>| -> Vec<Def> {
                        let mut ms = members.clone();
                        match nm {
                            Some(x) => ms[j] = x,
                            None => {
                                ms.remove(j);
                            }
                        }
                        replace(i, vec![mk(*ext, *nested, ms)])
                    };
                    out.push(with_m(None));
                    if m.key {
                        out.push(with_m(Some(Member { key: false, ..m.clone() })));
                    }
                    if m.id.is_some() {
                        out.push(with_m(Some(Member { id: None, ..m.clone() })));
                    }
                    if m.hashid {
                        out.push(with_m(Some(Member { hashid: false, ..m.clone() })));
                    }
                    if m.optional {
                        out.push(with_m(Some(Member { optional: false, ..m.clone() })));
                    }
                    if m.declarators.len() > 1 {
                        for k in 0..m.declarators.len() {
                            let mut ds = m.declarators.clone();
                            ds.remove(k);
                            out.push(with_m(Some(Member { declarators: ds, ..m.clone() })));
                        }
                    }
                    for (k, (_, dims)) in m.declarators.iter().enumerate() {
                        for nd in simplify_dims(dims) {
                            let mut ds = m.declarators.clone();
                            ds[k].1 = nd;
                            out.push(with_m(Some(Member { declarators: ds, ..m.clone() })));
                        }
                    }
                    for ns in simplify_specs(&m.spec) {
                        out.push(with_m(Some(Member { spec: ns, ..m.clone() })));
                    }
                }
            }
            Def::Enum { name, bit_bound, enumerators } => {
                if bit_bound.is_some() {
                    out.push(replace(i, vec![Def::Enum { name: name.clone(), bit_bound: None, enumerators: enumerators.clone() }]));
                }
                for k in 0..enumerators.len() {
                    if enumerators.len() > 1 {
                        let mut es = enumerators.clone();
                        es.remove(k);
                        out.push(replace(i, vec![Def::Enum { name: name.clone(), bit_bound: *bit_bound, enumerators: es }]));
                    }
                    if enumerators[k].1.is_some() {
                        let mut es = enumerators.clone();
                        es[k].1 = None;
                        out.push(replace(i, vec![Def::Enum { name: name.clone(), bit_bound: *bit_bound, enumerators: es }]));
                    }
                }
            }
            Def::Union { name, switch, cases } => {
                let mk = |switch: SwitchSpec, cases: Vec<UCase>| Def::Union { name: name.clone(), switch, cases };
                if *switch != SwitchSpec::Prim(IPrim::Long) {
                    // integer discriminator with the same label values
                    let cs: Vec<UCase> = cases
                        .iter()
                        .map(|c| UCase {
                            labels: c.labels.iter().map(|l| l.value().map(Label::Int).unwrap_or(Label::Default)).collect(),
                            ..c.clone()
                        })
                        .collect();
                    out.push(replace(i, vec![mk(SwitchSpec::Prim(IPrim::Long), cs)]));
                }
                if let SwitchSpec::Enum(p, RefStyle::Absolute) = switch {
                    out.push(replace(i, vec![mk(SwitchSpec::Enum(p.clone(), RefStyle::Relative), cases.clone())]));
                }
                if cases.len() > 1 {
                    for c in cases {
                        out.push(replace(i, vec![mk(switch.clone(), vec![c.clone()])]));
                    }
                }
                for (j, c) in cases.iter().enumerate() {
                    let with_c = |nc: Option<UCase>| -> Vec<Def> {
                        let mut cs = cases.clone();
                        match nc {
                            Some(x) => cs[j] = x,
                            None => {
                                cs.remove(j);
                            }
                        }
                        replace(i, vec![mk(switch.clone(), cs)])
                    };
                    if cases.len() > 1 {
                        out.push(with_c(None));
                    }
                    if c.labels.len() > 1 {
                        for k in 0..c.labels.len() {
                            let mut ls = c.labels.clone();
                            ls.remove(k);
                            out.push(with_c(Some(UCase { labels: ls, ..c.clone() })));
                        }
                    }
                    for l in 0..c.labels.len() {
                        if let Label::Int(v) = c.labels[l] {
                            // small non-negative label, if free
                            for cand in [1i64, 0] {
                                let taken = cases.iter().any(|cc| cc.labels.contains(&Label::Int(cand)));
                                if v != cand && !taken && (v < 0 || v > 1) {
                                    let mut ls = c.labels.clone();
                                    ls[l] = Label::Int(cand);
                                    out.push(with_c(Some(UCase { labels: ls, ..c.clone() })));
                                    break;
                                }
                            }
                        }
                    }
                    for nd in simplify_dims(&c.declarator.1) {
                        out.push(with_c(Some(UCase { declarator: (c.declarator.0.clone(), nd), ..c.clone() })));
                    }
                    for ns in simplify_specs(&c.spec) {
                        out.push(with_c(Some(UCase { spec: ns, ..c.clone() })));
                    }
                }
            }
            Def::Typedef { spec, declarators } => {
                if declarators.len() > 1 {
                    for k in 0..declarators.len() {
                        let mut ds = declarators.clone();
                        ds.remove(k);
                        out.push(replace(i, vec![Def::Typedef { spec: spec.clone(), declarators: ds }]));
                    }
                }
                for (k, (_, dims)) in declarators.iter().enumerate() {
                    for nd in simplify_dims(dims) {
                        let mut ds = declarators.clone();
                        ds[k].1 = nd;
                        out.push(replace(i, vec![Def::Typedef { spec: spec.clone(), declarators: ds }]));
                    }
                }
                for ns in simplify_specs(spec) {
                    out.push(replace(i, vec![Def::Typedef { spec: ns, declarators: declarators.clone() }]));
                }
            }
        }
    }
    out
}

/// Re-resolves references after an edit: a reference is looked up by its last component (names are
/// unique per specification), dangling ones become `long`; enumerator labels follow their enum.
/// Returns None when the result is not a valid specification.
fn fixup(spec: &Spec) -> Option<Spec> {
    let mut s = spec.clone();
    let syms = symbols(&s);
    // name -> path
    let find = |p: &Vec<String>| -> Option<Vec<String>> {
        let last = p.last()?;
        syms.keys().find(|k| k.last() == Some(last)).cloned()
    };
    fn fix_t(t: &mut TSpec, find: &dyn Fn(&Vec<String>) -> Option<Vec<String>>) {
        match t {
            TSpec::Seq(e, _) => fix_t(e, find),
            TSpec::Ref(p, _) => match find(p) {
                Some(np) => *p = np,
                None => *t = TSpec::Prim(IPrim::Long),
            },
            _ => {}
        }
    }
    fn walk(defs: &mut Vec<Def>, find: &dyn Fn(&Vec<String>) -> Option<Vec<String>>, syms: &Symbols, ok: &mut bool) {
        for d in defs.iter_mut() {
            match d {
                Def::Module { defs, .. } => walk(defs, find, syms, ok),
                Def::Struct { members, .. } => {
                    for m in members.iter_mut() {
                        fix_t(&mut m.spec, find);
                    }
                    if !ids_valid(members) {
                        *ok = false;
                    }
                }
                Def::Enum { .. } => {}
                Def::Union { switch, cases, .. } => {
                    for c in cases.iter_mut() {
                        fix_t(&mut c.spec, find);
                    }
                    if let SwitchSpec::Enum(p, _) = switch {
                        match find(p).and_then(|np| match syms.get(&np) {
                            Some(Sym::Enum(vals)) => Some((np, vals.clone())),
                            _ => None,
                        }) {
                            Some((np, vals)) => {
                                *p = np;
                                for c in cases.iter_mut() {
                                    c.labels.retain_mut(|l| match l {
                                        Label::Enumerator(n, v) => match vals.iter().find(|(vn, _)| vn == n) {
                                            Some((_, nv)) => {
                                                *v = *nv;
                                                true
                                            }
                                            None => false,
                                        },
                                        _ => true,
                                    });
                                }
                                cases.retain(|c| !c.labels.is_empty());
                            }
                            None => {
                                // the enum is gone: integer discriminator, same values
                                *switch = SwitchSpec::Prim(IPrim::Long);
                                for c in cases.iter_mut() {
                                    for l in c.labels.iter_mut() {
                                        if let Some(v) = l.value() {
                                            *l = Label::Int(v);
                                        }
                                    }
                                }
                            }
                        }
                    }
                    if cases.is_empty() {
                        *ok = false;
                    }
                    // labels stay distinct
                    let mut all: Vec<i64> = cases.iter().flat_map(|c| c.labels.iter().filter_map(|l| l.value())).collect();
                    let n = all.len();
                    all.sort();
                    all.dedup();
                    if all.len() != n {
                        *ok = false;
                    }
                }
                Def::Typedef { spec, .. } => fix_t(spec, find),
            }
        }
    }
    let mut ok = true;
    walk(&mut s.defs, &find, &syms, &mut ok);
    if !ok || s.defs.is_empty() {
        return None;
    }
    // a specification needs at least one definition that is not an empty module
    fn has_content(defs: &[Def]) -> bool {
        defs.iter().any(|d| match d {
            Def::Module { defs, .. } => has_content(defs),
            _ => true,
        })
    }
    fn no_empty_module(defs: &[Def]) -> bool {
        defs.iter().all(|d| match d {
            Def::Module { defs, .. } => !defs.is_empty() && no_empty_module(defs),
            _ => true,
        })
    }
    if !has_content(&s.defs) || !no_empty_module(&s.defs) {
        return None;
    }
    // array sizes written through a #define must still exist
    s.defines.retain(|(_, v)| {
        let mut found = false;
        for_each_def(&s.defs, &mut vec![], &mut |_, d| match d {
            Def::Struct { members, .. } => members.iter().for_each(|m| m.declarators.iter().for_each(|d| found |= d.1.contains(v))),
            Def::Union { cases, .. } => cases.iter().for_each(|c| found |= c.declarator.1.contains(v)),
            Def::Typedef { declarators, .. } => declarators.iter().for_each(|d| found |= d.1.contains(v)),
            _ => {}
        });
        found
    });
    Some(s)
}

pub fn size(s: &Spec) -> usize {
    serde_json::to_string(s).map(|x| x.len()).unwrap_or(usize::MAX / 2) + render_idl(s).len()
}

fn strip_annotations(defs: &[Def]) -> Vec<Def> {
    defs.iter()
        .map(|d| match d {
            Def::Module { name, defs } => Def::Module { name: name.clone(), defs: strip_annotations(defs) },
            Def::Struct { name, members, .. } => Def::Struct {
                name: name.clone(),
                ext: None,
                nested: false,
                members: members.iter().map(|m| Member { key: false, id: None, hashid: false, optional: false, ..m.clone() }).collect(),
            },
            Def::Enum { name, enumerators, .. } => Def::Enum {
                name: name.clone(),
                bit_bound: None,
                enumerators: enumerators.iter().map(|(n, _)| (n.clone(), None)).collect(),
            },
            other => other.clone(),
        })
        .collect()
}

pub fn reductions(spec: &Spec) -> Vec<Spec> {
    let mut out: Vec<Spec> = vec![];
    if spec.guard.is_some() {
        out.push(Spec { guard: None, ..spec.clone() });
    }
    if !spec.defines.is_empty() {
        out.push(Spec { defines: vec![], ..spec.clone() });
    }
    if spec.style != 0 {
        out.push(Spec { style: 0, ..spec.clone() });
    }
    // big steps first: plain text, no annotations at all
    out.push(Spec { guard: None, defines: vec![], style: 0, ..spec.clone() });
    out.push(Spec { defs: strip_annotations(&spec.defs), guard: None, defines: vec![], style: 0 });
    for defs in edits(&spec.defs) {
        out.push(Spec { defs, ..spec.clone() });
    }
    let cur = size(spec);
    let mut seen: Vec<Spec> = vec![];
    for c in out {
        if let Some(f) = fixup(&c) {
            if size(&f) < cur && !seen.contains(&f) {
                seen.push(f);
            }
        }
    }
    seen.sort_by_key(size);
    seen
}
