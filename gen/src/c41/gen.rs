//! Random IDL specifications over the subset of IDL 4.2 that dust_dds_gen's Rust back end handles:
//! modules (nested, reopened), structs (no inheritance), enums (@bit_bound, @value), unions, typedefs
//! (simple and array declarators), primitive types in both spellings, bounded/unbounded (w)strings and
//! sequences, arrays, scoped names in every style IDL allows, member annotations @key @id @hashid
//! @optional, type annotations @final @appendable @mutable @nested, comments, include guards and
//! `#define`d array sizes. Not generated (outside the subset: rejected by the grammar, or explicitly
//! unsupported by the Rust mapping): fixed, long double, any, map, bitset/bitmask, interfaces, value
//! types, constants, struct inheritance, annotations on unions/typedefs/modules, @extensibility(..).

use super::ast::*;
use crate::rng::Src;

/// IDL keywords (case-insensitive collisions are illegal identifiers, IDL 4.2 7.2.3)
const IDL_KEYWORDS: &[&str] = &[
    "truncatable", "mirrorport", "primarykey", "typeprefix", "valuebase", "attribute", "component", "connector",
    "eventtype", "exception", "getraises", "interface", "publishes", "setraises", "valuetype", "abstract", "bitfield",
    "consumes", "multiple", "porttype", "provides", "readonly", "sequence", "supports", "typename", "unsigned",
    "bitmask", "boolean", "context", "default", "factory", "manages", "private", "typedef", "wstring", "object",
    "bitset", "custom", "double", "finder", "import", "module", "native", "oneway", "public", "raises", "string",
    "struct", "switch", "typeid", "uint16", "uint32", "uint64", "false", "alias", "const", "emits", "fixed", "float",
    "inout", "int16", "int32", "int64", "local", "octet", "short", "uint8", "union", "wchar", "true", "case", "char",
    "enum", "home", "int8", "long", "port", "uses", "void", "any", "map", "out", "in",
];

/// valid IDL identifiers that are keywords of the Rust language
const RUST_KW_IDENTS: &[&str] = &["type", "match", "ref", "move", "fn", "impl", "loop", "mod", "use", "where", "dyn", "yield", "gen", "mut", "pub", "trait", "let", "as"];

const TYPE_WORDS: &[&str] = &[
    "Point", "ShapeType", "Sensor", "Reading", "Header", "Packet", "Status", "Colour", "Command", "Track", "Sample", "Frame",
    "Event", "Entry", "Node", "Msg", "Pose", "Twist", "Image_t", "GPSFix", "robot_state", "vector3",
];
const MODULE_WORDS: &[&str] = &["geometry", "msgs", "Nav", "core", "vendor", "Types", "v1", "dds_demo", "Game", "io"];
const MEMBER_WORDS: &[&str] = &[
    "id", "x", "y", "z", "value", "data", "color", "shapesize", "name", "count", "flags", "payload", "stamp", "seq", "kind",
    "angle", "speed", "label", "index", "points", "mode", "state", "level", "temp", "Pressure", "ownerName", "TAG", "frame_id",
];
const ENUMERATOR_WORDS: &[&str] = &["RED", "GREEN", "BLUE", "Idle", "Busy", "LOW", "HIGH", "On", "Off", "NORTH", "SOUTH", "Circle", "SQUARE", "UNKNOWN", "Ok", "FAILED"];

pub struct G<'a> {
    pub s: &'a mut Src,
    used: Vec<String>,
    /// declared so far: absolute path and symbol
    pub syms: Vec<(Vec<String>, Sym)>,
    counter: usize,
}

impl<'a> G<'a> {
    fn fresh(&mut self, words: &[&str], allow_rust_kw: bool) -> String {
        loop {
            self.counter += 1;
            let mut n = if allow_rust_kw && self.s.below(250) == 0 {
                (*self.s.pick(RUST_KW_IDENTS)).to_string()
            } else {
                (*self.s.pick(words)).to_string()
            };
            if self.used.iter().any(|u| u.eq_ignore_ascii_case(&n)) {
                n.push_str(&format!("{}", self.counter));
            }
            let lower = n.to_ascii_lowercase();
            if IDL_KEYWORDS.contains(&lower.as_str()) || self.used.iter().any(|u| u.eq_ignore_ascii_case(&n)) {
                continue;
            }
            // names the harness itself uses in the generated unit
            if n == "verif_dump_unit" || n == "dust_dds" || n == "crate" || n == "Option" || n == "Vec" || n == "String" {
                continue;
            }
            self.used.push(n.clone());
            return n;
        }
    }

    fn prim(&mut self) -> IPrim {
        // wchar is rare: its mapping is a known deviation
        if self.s.chance(3) { IPrim::WChar } else { *self.s.pick(&ALL_IPRIMS) }
    }

    fn bound(&mut self) -> Option<u32> {
        if self.s.chance(25) { Some(*self.s.pick(&[1u32, 2, 8, 16, 64, 128, 255, 256, 1000])) } else { None }
    }

    fn reference(&mut self, cur: &[String], only_enum: bool) -> Option<(Vec<String>, RefStyle)> {
        let cands: Vec<&(Vec<String>, Sym)> =
            self.syms.iter().filter(|(_, s)| !only_enum || matches!(s, Sym::Enum(_))).collect();
        if cands.is_empty() {
            return None;
        }
        let (path, _) = (*self.s.pick(&cands)).clone();
        let tmod = &path[..path.len() - 1];
        let same = tmod == cur;
        let child = tmod.len() > cur.len() && tmod[..cur.len()] == *cur;
        let style = if same || child {
            // the plain name is what people write; absolute only inside modules, sometimes
            if !cur.is_empty() && self.s.chance(15) {
                RefStyle::Absolute
            } else if cur.is_empty() && self.s.chance(2) {
                RefStyle::Absolute
            } else {
                RefStyle::Relative
            }
        } else if self.s.chance(88) {
            RefStyle::Absolute
        } else {
            RefStyle::Relative
        };
        Some((path, style))
    }

    fn is_collection(&self, path: &[String]) -> bool {
        let map: Symbols = self.syms.iter().cloned().collect();
        matches!(shape_of(&map, &TSpec::Ref(path.to_vec(), RefStyle::Absolute)), Shape::Seq(..) | Shape::Arr(..))
    }

    fn elem_spec(&mut self, cur: &[String]) -> TSpec {
        match self.s.weighted(&[55, 12, 3, 1, 29]) {
            0 => TSpec::Prim(self.prim()),
            1 => TSpec::Str(self.bound()),
            2 => TSpec::WStr(self.bound()),
            3 => TSpec::Seq(Box::new(TSpec::Prim(self.prim())), self.bound()),
            _ => match self.reference(cur, false) {
                // nested collections are not expressible in the Rust mapping (finding): keep them rare
                Some((p, _)) if self.is_collection(&p) && !self.s.chance(15) => TSpec::Prim(self.prim()),
                Some((p, st)) => TSpec::Ref(p, st),
                None => TSpec::Prim(self.prim()),
            },
        }
    }

    pub fn tspec(&mut self, cur: &[String]) -> TSpec {
        match self.s.weighted(&[48, 12, 3, 14, 23]) {
            0 => TSpec::Prim(self.prim()),
            1 => TSpec::Str(self.bound()),
            2 => TSpec::WStr(self.bound()),
            3 => TSpec::Seq(Box::new(self.elem_spec(cur)), self.bound()),
            _ => match self.reference(cur, false) {
                Some((p, st)) => TSpec::Ref(p, st),
                None => TSpec::Prim(self.prim()),
            },
        }
    }

    fn dims(&mut self) -> Vec<u32> {
        if self.s.chance(14) {
            if self.s.chance(12) {
                vec![1 + self.s.below(3) as u32, 1 + self.s.below(3) as u32]
            } else {
                vec![*self.s.pick(&[1u32, 2, 3, 4, 8, 16, 32, 33, 64])]
            }
        } else {
            vec![]
        }
    }

    fn gen_struct(&mut self, cur: &[String]) -> Def {
        let name = self.fresh(TYPE_WORDS, true);
        let ext = match self.s.weighted(&[40, 15, 20, 25]) {
            0 => None,
            1 => Some(Ext::Final),
            2 => Some(Ext::Appendable),
            _ => Some(Ext::Mutable),
        };
        let mutable = ext == Some(Ext::Mutable);
        let n = match self.s.below(12) {
            0 => 0,
            _ => 1 + self.s.below(6),
        };
        let mut members: Vec<Member> = vec![];
        // member names only need to be unique within the struct, but unique-per-specification names
        // keep scoping questions out of the picture
        for _ in 0..n {
            let spec = self.tspec(cur);
            let ndecl = if self.s.chance(10) { 2 } else { 1 };
            let declarators: Vec<Declarator> = (0..ndecl).map(|_| (self.fresh(MEMBER_WORDS, true), self.dims())).collect();
            let mut m = Member { key: false, id: None, hashid: false, optional: false, spec, declarators };
            match self.s.weighted(&[60, 20, 20]) {
                1 => m.key = true,
                2 => m.optional = true,
                _ => {}
            }
            // an optional member of a constructed type needs PartialEq on that type, which the generated
            // code does not derive (finding): keep that combination rare
            if m.optional && mentions_ref(&m.spec) && !self.s.chance(15) {
                m.optional = false;
            }
            if ndecl == 1 && self.s.chance(if mutable { 35 } else { 8 }) {
                m.id = Some(0);
            } else if self.s.chance(if mutable { 10 } else { 3 }) {
                m.hashid = true;
            }
            members.push(m);
        }
        assign_ids(self.s, &mut members);
        let mut p = cur.to_vec();
        p.push(name.clone());
        self.syms.push((p, Sym::Struct(ext.is_some() && !cur.is_empty())));
        Def::Struct { name, ext, nested: self.s.chance(10), members }
    }

    fn gen_enum(&mut self, cur: &[String]) -> Def {
        let name = self.fresh(TYPE_WORDS, true);
        let bit_bound = if self.s.chance(10) { Some(*self.s.pick(&[8u32, 16, 32])) } else { None };
        let max: i64 = match bit_bound {
            Some(8) => 127,
            Some(16) => 32767,
            _ => i32::MAX as i64,
        };
        let n = 1 + self.s.below(6);
        let explicit_values = self.s.chance(30);
        let mut enumerators = vec![];
        let mut next = 0i64;
        for _ in 0..n {
            let lit = self.fresh(ENUMERATOR_WORDS, false);
            let v = if explicit_values && self.s.chance(60) {
                let jump = *self.s.pick(&[0i64, 1, 2, 10, 100]);
                Some((next + jump).min(max))
            } else {
                None
            };
            let val = v.unwrap_or(next);
            if val > max {
                break;
            }
            enumerators.push((lit, v.map(|x| x as u32)));
            next = val + 1;
        }
        if enumerators.is_empty() {
            enumerators.push((self.fresh(ENUMERATOR_WORDS, false), None));
        }
        let mut p = cur.to_vec();
        p.push(name.clone());
        self.syms.push((p, Sym::Enum(enum_values(&enumerators))));
        Def::Enum { name, bit_bound, enumerators }
    }

    fn gen_union(&mut self, cur: &[String]) -> Def {
        let name = self.fresh(TYPE_WORDS, true);
        let switch = match self.s.weighted(&[88, 3, 3, 2, 4]) {
            0 => SwitchSpec::Prim(*self.s.pick(&[
                IPrim::Long,
                IPrim::Long,
                IPrim::Int32,
                IPrim::Short,
                IPrim::UShort,
                IPrim::ULong,
                IPrim::UInt8,
                IPrim::Int8,
                IPrim::Int16,
                IPrim::UInt32,
                IPrim::LongLong,
                IPrim::UInt64,
            ])),
            1 => SwitchSpec::Prim(IPrim::Octet),
            2 => SwitchSpec::Prim(IPrim::Char),
            3 => SwitchSpec::Prim(IPrim::Boolean),
            _ => match self.reference(cur, true) {
                Some((p, st)) => SwitchSpec::Enum(p, st),
                None => SwitchSpec::Prim(IPrim::Long),
            },
        };
        let mut universe: Vec<Label> = match &switch {
            SwitchSpec::Prim(IPrim::Boolean) => vec![Label::Bool(true), Label::Bool(false)],
            SwitchSpec::Prim(IPrim::Char) => (b'a'..=b'z').map(Label::Char).collect(),
            SwitchSpec::Prim(p) => {
                let signed = matches!(p, IPrim::Long | IPrim::Int32 | IPrim::Short | IPrim::Int8 | IPrim::Int16 | IPrim::LongLong);
                let mut u: Vec<Label> = (0..=12).map(Label::Int).collect();
                u.push(Label::Int(100));
                u.push(Label::Int(127));
                if signed && self.s.chance(6) {
                    u.push(Label::Int(-1));
                    u.push(Label::Int(-5));
                }
                u
            }
            SwitchSpec::Enum(p, _) => match self.syms.iter().find(|(q, _)| q == p) {
                Some((_, Sym::Enum(vals))) => vals.iter().map(|(n, v)| Label::Enumerator(n.clone(), *v)).collect(),
                _ => vec![Label::Int(0)],
            },
        };
        let ncase = (1 + self.s.below(4)).min(universe.len());
        let default_at = if self.s.chance(35) { Some(if self.s.chance(75) { ncase - 1 } else { self.s.below(ncase) }) } else { None };
        let mut cases = vec![];
        for ci in 0..ncase {
            let mut labels = vec![];
            let is_default = default_at == Some(ci);
            let want = if is_default { self.s.below(2) } else { 1 + self.s.weighted(&[75, 20, 5]) };
            for _ in 0..want {
                if universe.is_empty() {
                    break;
                }
                let k = self.s.below(universe.len());
                labels.push(universe.remove(k));
            }
            if is_default {
                let at = self.s.below(labels.len() + 1);
                labels.insert(at, Label::Default);
            }
            if labels.is_empty() {
                break;
            }
            let spec = self.tspec(cur);
            let dims = if self.s.chance(8) { vec![1 + self.s.below(4) as u32] } else { vec![] };
            cases.push(UCase { labels, spec, declarator: (self.fresh(MEMBER_WORDS, true), dims) });
        }
        if cases.is_empty() {
            cases.push(UCase {
                labels: vec![Label::Default],
                spec: TSpec::Prim(IPrim::Long),
                declarator: (self.fresh(MEMBER_WORDS, false), vec![]),
            });
        }
        let mut p = cur.to_vec();
        p.push(name.clone());
        self.syms.push((p, Sym::Union));
        Def::Union { name, switch, cases }
    }

    fn gen_typedef(&mut self, cur: &[String]) -> Def {
        let spec = self.tspec(cur);
        let n = if self.s.chance(15) { 2 } else { 1 };
        let declarators: Vec<Declarator> = (0..n)
            .map(|_| {
                let name = self.fresh(TYPE_WORDS, false);
                let dims = if self.s.chance(5) { vec![1 + self.s.below(4) as u32] } else { vec![] };
                (format!("{name}_t"), dims)
            })
            .collect();
        for (n, dims) in &declarators {
            let mut p = cur.to_vec();
            p.push(n.clone());
            self.used.push(n.clone());
            self.syms.push((p, Sym::Typedef(spec.clone(), dims.clone())));
        }
        Def::Typedef { spec, declarators }
    }

    fn gen_defs(&mut self, cur: &mut Vec<String>, n: usize, depth: usize, module_names: &mut Vec<(Vec<String>, String)>) -> Vec<Def> {
        let mut out = vec![];
        for _ in 0..n {
            let w = [if depth < 2 { 22 } else { 0 }, 40, 14, 10, 14];
            let d = match self.s.weighted(&w) {
                0 => {
                    // reopen an existing module of this scope now and then (legal IDL)
                    let reopen: Vec<String> = module_names.iter().filter(|(p, _)| p == cur).map(|(_, n)| n.clone()).collect();
                    let name = if !reopen.is_empty() && self.s.chance(12) {
                        (*self.s.pick(&reopen)).clone()
                    } else {
                        let n = self.fresh(MODULE_WORDS, true);
                        module_names.push((cur.clone(), n.clone()));
                        n
                    };
                    cur.push(name.clone());
                    let k = 1 + self.s.below(3);
                    let defs = self.gen_defs(cur, k, depth + 1, module_names);
                    cur.pop();
                    Def::Module { name, defs }
                }
                1 => self.gen_struct(cur),
                2 => self.gen_enum(cur),
                3 => self.gen_union(cur),
                _ => self.gen_typedef(cur),
            };
            out.push(d);
        }
        out
    }
}

fn mentions_ref(t: &TSpec) -> bool {
    match t {
        TSpec::Ref(..) => true,
        TSpec::Seq(e, _) => mentions_ref(e),
        _ => false,
    }
}

/// explicit ids such that the declaration is valid under XTypes 1.3 7.3.1.2.1.1 (ids distinct, < 2^28)
fn assign_ids(s: &mut Src, members: &mut [Member]) {
    for attempt in 0..20 {
        let mut prev: Option<u32> = None;
        for m in members.iter_mut() {
            if m.id.is_some() {
                let base = prev.map(|p| p + 1).unwrap_or(0);
                let v = match s.below(8) {
                    0 => base,
                    1 | 2 | 3 => base + 1 + s.below(9) as u32,
                    4 => 100 + s.below(900) as u32,
                    5 => s.below(20) as u32,
                    _ => base + s.below(4) as u32,
                };
                m.id = Some(v.min(0x0FFF_FF00));
            }
            for (i, _) in m.declarators.iter().enumerate() {
                prev = Some(super::oracle::expected_member_id(m, i, prev));
            }
        }
        if super::oracle::ids_valid(members) {
            return;
        }
        if attempt >= 8 {
            if let Some(m) = members.iter_mut().rev().find(|m| m.id.is_some() || m.hashid) {
                m.id = None;
                m.hashid = false;
            }
        }
    }
    for m in members.iter_mut() {
        m.id = None;
        m.hashid = false;
    }
}

pub fn gen_spec(s: &mut Src) -> Spec {
    let mut g = G { s, used: vec![], syms: vec![], counter: 0 };
    let n = 1 + g.s.weighted(&[25, 30, 25, 12, 8]);
    let mut module_names = vec![];
    let defs = g.gen_defs(&mut vec![], n, 0, &mut module_names);
    let guard = if g.s.chance(12) { Some(format!("VERIF_SPEC_{}_IDL_", g.s.below(1000))) } else { None };
    let style = if g.s.chance(30) { 1 } else { 0 };
    let mut spec = Spec { defs, guard, defines: vec![], style };
    // a `#define`d array size (only when some array has that size and the name cannot be mistaken for
    // part of another identifier)
    if g.s.chance(15) {
        let mut dims: Vec<u32> = vec![];
        for_each_def(&spec.defs, &mut vec![], &mut |_, d| match d {
            Def::Struct { members, .. } => members.iter().for_each(|m| m.declarators.iter().for_each(|d| dims.extend(&d.1))),
            Def::Union { cases, .. } => cases.iter().for_each(|c| dims.extend(&c.declarator.1)),
            Def::Typedef { declarators, .. } => declarators.iter().for_each(|d| dims.extend(&d.1)),
            _ => {}
        });
        if let Some(d) = dims.first() {
            spec.defines.push((format!("VERIF_LEN_{d}_"), *d));
        }
    }
    spec
}
