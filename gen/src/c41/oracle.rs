//! C41 oracle: the structure an IDL specification declares (names, member kinds, bounds, keys, ids,
//! extensibility, enumerators, union cases) versus the dynamic type descriptions printed by the
//! compiled output of dust_dds_gen.
//!
//! Tolerances (statement / XTypes leave freedom): a type without extensibility annotation may be
//! published as Final or Appendable (vendors differ on the default); octet/uint8 may be BYTE or UINT8;
//! how "unbounded" is encoded is free ([] / [0] / [u32::MAX]); multi-dimensional arrays may be one ARRAY
//! with several bounds or nested ARRAYs; typedefs are transparent (ALIAS kind not demanded); must-understand
//! flags, union member ids and @nested are not part of the statement.

use super::ast::*;
use crate::dump::{CaseOut, Finding, OMember, OShallow, OType, finding, trunc};
use std::collections::BTreeSet;

/// dust_dds_gen writes one `#[dust_dds(..)]` attribute per annotation; the derive macro reads only the
/// first one. All manifestations share this signature.
pub const SPLIT_SIG: &str = "C41:annotations:item-with-several-annotations-loses-all-but-the-first";

pub fn hash_id_raw(name: &str) -> u32 {
    let d = md5::compute(name.as_bytes());
    u32::from_le_bytes([d[0], d[1], d[2], d[3]])
}

/// XTypes 1.3 7.3.1.2.1.1: explicit @id, @hashid (MD5 & 0x0FFFFFFF), otherwise previous + 1
pub fn expected_member_id(m: &Member, declarator: usize, prev: Option<u32>) -> u32 {
    if let (Some(id), 0) = (m.id, declarator) {
        id
    } else if m.hashid {
        hash_id_raw(&m.declarators[declarator].0) & 0x0FFF_FFFF
    } else {
        prev.map(|p| p.wrapping_add(1)).unwrap_or(0)
    }
}

pub fn expected_ids(members: &[Member]) -> Vec<u32> {
    let mut prev = None;
    let mut out = vec![];
    for m in members {
        for i in 0..m.declarators.len() {
            let id = expected_member_id(m, i, prev);
            prev = Some(id);
            out.push(id);
        }
    }
    out
}

pub fn ids_valid(members: &[Member]) -> bool {
    let ids = expected_ids(members);
    if ids.iter().any(|i| *i > 0x0FFF_FFFF) {
        return false;
    }
    let mut s = ids.clone();
    s.sort();
    s.dedup();
    s.len() == ids.len()
}

// ---------------------------------------------------------------------------------------------
// feature tags (class histogram, signature shapes)

fn ref_tag(cur: &[String], target: &[String], style: RefStyle) -> &'static str {
    let tmod = &target[..target.len() - 1];
    match style {
        RefStyle::Absolute => {
            if cur.is_empty() { "ref:absolute-at-file-scope" } else { "ref:absolute" }
        }
        RefStyle::Relative => {
            if tmod == cur {
                "ref:same-scope"
            } else if tmod.len() > cur.len() && tmod[..cur.len()] == *cur {
                "ref:into-nested-module"
            } else {
                "ref:relative-via-enclosing-scope"
            }
        }
    }
}

const RUST_KEYWORDS: &[&str] = &[
    "as", "break", "const", "continue", "crate", "else", "enum", "extern", "false", "fn", "for", "if", "impl", "in", "let",
    "loop", "match", "mod", "move", "mut", "pub", "ref", "return", "self", "Self", "static", "struct", "super", "trait",
    "true", "type", "unsafe", "use", "where", "while", "async", "await", "dyn", "abstract", "become", "box", "do", "final",
    "macro", "override", "priv", "typeof", "unsized", "virtual", "yield", "try", "gen",
];

fn ident_tag(n: &str, out: &mut BTreeSet<String>) {
    if RUST_KEYWORDS.contains(&n) {
        out.insert("ident:rust-keyword".into());
    }
}

fn tspec_tags(syms: &Symbols, cur: &[String], t: &TSpec, out: &mut BTreeSet<String>) {
    match t {
        TSpec::Prim(IPrim::WChar) => {
            out.insert("type:wchar".into());
        }
        TSpec::Prim(_) => {
            out.insert("type:primitive".into());
        }
        TSpec::Str(b) => {
            out.insert(if b.is_some() { "type:string-bounded" } else { "type:string" }.into());
        }
        TSpec::WStr(b) => {
            out.insert(if b.is_some() { "type:wstring-bounded" } else { "type:wstring" }.into());
        }
        TSpec::Seq(e, b) => {
            out.insert(if b.is_some() { "type:sequence-bounded" } else { "type:sequence" }.into());
            if b.is_none() && matches!(**e, TSpec::Str(Some(_)) | TSpec::WStr(Some(_)) | TSpec::Seq(_, Some(_))) {
                // rendered as `sequence<string<N>>`: the bound is directly followed by `>>`
                out.insert("syntax:bound-followed-by->>".into());
            }
            tspec_tags(syms, cur, e, out);
        }
        TSpec::Ref(p, st) => {
            out.insert(ref_tag(cur, p, *st).into());
            match syms.get(p) {
                Some(Sym::Typedef(..)) => out.insert("ref:to-typedef".into()),
                Some(Sym::Struct(_)) => out.insert("ref:to-struct".into()),
                Some(Sym::Enum(_)) => out.insert("ref:to-enum".into()),
                Some(Sym::Union) => out.insert("ref:to-union".into()),
                None => out.insert("ref:unresolved".into()),
            };
        }
    }
}

/// tags that describe the resolved shape of a member (collection nesting is what matters to the mapping)
fn shape_tags(s: &Shape, out: &mut BTreeSet<String>) {
    match s {
        Shape::Seq(e, _) => {
            match **e {
                Shape::Seq(..) => {
                    out.insert("shape:sequence-of-sequence".into());
                }
                Shape::Arr(..) => {
                    out.insert("shape:sequence-of-array".into());
                }
                Shape::Prim(IPrim::Int8) => {
                    out.insert("shape:sequence-of-int8".into());
                }
                _ => {}
            }
            shape_tags(e, out);
        }
        Shape::Arr(d, e) => {
            out.insert(if d.len() > 1 { "shape:array-multi-dimensional" } else { "shape:array" }.into());
            match **e {
                Shape::Seq(..) => {
                    out.insert("shape:array-of-sequence".into());
                }
                _ => {}
            }
            shape_tags(e, out);
        }
        _ => {}
    }
}

pub fn features(spec: &Spec) -> BTreeSet<String> {
    let syms = symbols(spec);
    let mut out: BTreeSet<String> = BTreeSet::new();
    if spec.guard.is_some() {
        out.insert("pp:include-guard".into());
    }
    if !spec.defines.is_empty() {
        out.insert("pp:define".into());
    }
    if spec.style == 1 {
        out.insert("text:comments".into());
    }
    fn walk(defs: &[Def], cur: &mut Vec<String>, syms: &Symbols, out: &mut BTreeSet<String>) {
        let mut seen_modules: Vec<&String> = vec![];
        for d in defs {
            match d {
                Def::Module { name, defs } => {
                    out.insert(if cur.is_empty() { "module" } else { "module:nested" }.into());
                    if seen_modules.contains(&name) {
                        out.insert("module:reopened".into());
                    }
                    seen_modules.push(name);
                    ident_tag(name, out);
                    cur.push(name.clone());
                    walk(defs, cur, syms, out);
                    cur.pop();
                }
                Def::Struct { name, ext, nested, members } => {
                    out.insert("struct".into());
                    ident_tag(name, out);
                    if members.is_empty() {
                        out.insert("struct:empty".into());
                    }
                    match ext {
                        Some(e) => out.insert(format!("annot:{}", e.annot())),
                        None => out.insert("ext:unspecified".into()),
                    };
                    if *nested {
                        out.insert("annot:@nested".into());
                    }
                    if (ext.is_some() || *nested) && !cur.is_empty() {
                        out.insert("struct:annotated-in-module".into());
                    }
                    for m in members {
                        let nann = m.key as usize + m.id.is_some() as usize + m.hashid as usize + m.optional as usize;
                        if m.key {
                            out.insert("annot:@key".into());
                        }
                        if m.id.is_some() {
                            out.insert("annot:@id".into());
                        }
                        if m.hashid {
                            out.insert("annot:@hashid".into());
                        }
                        if m.optional {
                            out.insert("annot:@optional".into());
                        }
                        if nann >= 2 {
                            out.insert("member:several-annotations".into());
                        }
                        if m.declarators.len() > 1 {
                            out.insert("member:several-declarators".into());
                            if nann >= 1 {
                                out.insert("member:annotated-with-several-declarators".into());
                            }
                        }
                        tspec_tags(syms, cur, &m.spec, out);
                        for (n, dims) in &m.declarators {
                            ident_tag(n, out);
                            shape_tags(&with_dims(shape_of(syms, &m.spec), dims), out);
                        }
                    }
                }
                Def::Enum { name, bit_bound, enumerators } => {
                    out.insert("enum".into());
                    ident_tag(name, out);
                    if bit_bound.is_some() {
                        out.insert("annot:@bit_bound".into());
                    }
                    if enumerators.iter().any(|e| e.1.is_some()) {
                        out.insert("annot:@value".into());
                    }
                }
                Def::Union { name, switch, cases } => {
                    out.insert("union".into());
                    ident_tag(name, out);
                    match switch {
                        SwitchSpec::Prim(IPrim::Char) => out.insert("union:switch-char".into()),
                        SwitchSpec::Prim(IPrim::Boolean) => out.insert("union:switch-boolean".into()),
                        SwitchSpec::Prim(IPrim::Octet) => out.insert("union:switch-octet".into()),
                        SwitchSpec::Prim(_) => out.insert("union:switch-integer".into()),
                        SwitchSpec::Enum(p, st) => {
                            out.insert(ref_tag(cur, p, *st).into());
                            out.insert("union:switch-enum".into())
                        }
                    };
                    for (ci, c) in cases.iter().enumerate() {
                        if c.labels.iter().any(|l| matches!(l, Label::Int(v) if *v < 0)) {
                            out.insert("union:negative-label".into());
                        }
                        if c.labels.len() > 1 {
                            out.insert("union:several-labels".into());
                        }
                        if c.labels.contains(&Label::Default) {
                            out.insert("union:default".into());
                            if ci + 1 != cases.len() {
                                out.insert("union:default-not-last".into());
                            }
                        }
                        tspec_tags(syms, cur, &c.spec, out);
                        ident_tag(&c.declarator.0, out);
                        if ["data", "src", "disc", "a"].contains(&c.declarator.0.as_str()) {
                            out.insert("union:member-named-like-a-local-of-the-derive-expansion".into());
                        }
                        shape_tags(&with_dims(shape_of(syms, &c.spec), &c.declarator.1), out);
                    }
                }
                Def::Typedef { spec, declarators } => {
                    out.insert("typedef".into());
                    tspec_tags(syms, cur, spec, out);
                    if declarators.len() > 1 {
                        out.insert("typedef:several-declarators".into());
                    }
                    for (n, dims) in declarators {
                        ident_tag(n, out);
                        if !dims.is_empty() {
                            out.insert("typedef:array".into());
                        }
                    }
                }
            }
        }
    }
    walk(&spec.defs, &mut vec![], &syms, &mut out);
    out
}

/// non-trivial: >= 2 declarations with a cross reference, or a module, or an annotation
pub fn nontrivial(f: &BTreeSet<String>) -> bool {
    f.iter().any(|t| t.starts_with("ref:") || t.starts_with("module") || t.starts_with("annot:"))
}

/// shape part of a signature: the distinguishing tags of a (minimised) specification; declaration
/// kinds only when nothing else distinguishes it
pub fn shape_of_features(f: &BTreeSet<String>) -> String {
    let boring = [
        "type:primitive", "ext:unspecified", "text:comments", "ref:same-scope", "type:string", "type:sequence", "struct:empty",
        "union:switch-integer", "shape:array",
    ];
    let kinds = ["module", "module:nested", "struct", "enum", "union", "typedef"];
    let mut v: Vec<&str> = f.iter().map(|s| s.as_str()).filter(|t| !boring.contains(t) && !kinds.contains(t)).collect();
    // what a scoped name refers to does not matter once the way it is written is the distinguishing feature
    if v.iter().any(|t| *t == "ref:relative-via-enclosing-scope" || *t == "ref:absolute-at-file-scope") {
        v.retain(|t| !t.starts_with("ref:to-"));
    }
    if !v.is_empty() {
        return v.join("+");
    }
    let k: Vec<&str> = f.iter().map(|s| s.as_str()).filter(|t| kinds.contains(t)).collect();
    k.join("+")
}

// ---------------------------------------------------------------------------------------------
// comparison

fn unbounded(b: &[u64]) -> bool {
    b.is_empty() || b == [0] || b == [u32::MAX as u64]
}

/// flattens nested ARRAY descriptions: (dims, element)
fn flatten_array(o: &OShallow) -> (Vec<u64>, &OShallow) {
    let mut dims = vec![];
    let mut cur = o;
    while cur.kind == "ARRAY" {
        dims.extend(cur.bound.iter().copied());
        match &cur.elem {
            Some(e) => cur = e,
            None => break,
        }
    }
    (dims, cur)
}

/// Err((sub-oracle, shape)) when `o` does not describe `s`
fn shape_ok(s: &Shape, o: &OShallow) -> Result<(), (&'static str, String)> {
    match s {
        Shape::Unknown => Err(("harness", "unresolved-reference".into())),
        Shape::Prim(p) => {
            if p.kinds().contains(&o.kind.as_str()) {
                Ok(())
            } else if *p == IPrim::WChar && o.kind == "CHAR8" {
                Err(("member-kind", "wchar-published-as-CHAR8".into()))
            } else {
                Err(("member-kind", format!("{}-published-as-{}", p.idl().replace(' ', "-"), o.kind)))
            }
        }
        Shape::Str(b, wide) => {
            let want = if *wide { "STRING16" } else { "STRING8" };
            if o.kind != want {
                if *wide && o.kind == "STRING8" {
                    return Err(("member-kind", "wstring-published-as-STRING8".into()));
                }
                return Err(("member-kind", format!("{}-published-as-{}", if *wide { "wstring" } else { "string" }, o.kind)));
            }
            match b {
                None if unbounded(&o.bound) => Ok(()),
                Some(n) if o.bound == [*n as u64] => Ok(()),
                Some(_) if unbounded(&o.bound) => Err(("bounds", "string-bound-dropped".into())),
                _ => Err(("bounds", "string-bound-differs".into())),
            }
        }
        Shape::Seq(e, b) => {
            if o.kind != "SEQUENCE" {
                return Err(("member-kind", format!("sequence-published-as-{}", o.kind)));
            }
            match b {
                None if unbounded(&o.bound) => {}
                Some(n) if o.bound == [*n as u64] => {}
                Some(_) if unbounded(&o.bound) => return Err(("bounds", "sequence-bound-dropped".into())),
                _ => return Err(("bounds", "sequence-bound-differs".into())),
            }
            match &o.elem {
                Some(oe) => shape_ok(e, oe).map_err(|(k, r)| {
                    if **e == Shape::Prim(IPrim::Int8) { (k, format!("sequence-element-{r}")) } else { (k, r) }
                }),
                None => Err(("member-kind", "sequence-without-element-type".into())),
            }
        }
        Shape::Arr(dims, e) => {
            if o.kind != "ARRAY" {
                return Err(("member-kind", format!("array-published-as-{}", o.kind)));
            }
            let (odims, oe) = flatten_array(o);
            let want: Vec<u64> = dims.iter().map(|d| *d as u64).collect();
            if odims != want {
                if dims.len() > 1 && odims.len() == 1 && odims[0] == want[0] {
                    return Err(("array-dims", "only-first-dimension-kept".into()));
                }
                return Err(("array-dims", "dimensions-differ".into()));
            }
            shape_ok(e, oe)
        }
        Shape::Named(kind, name, split_prone) => {
            if o.kind != *kind {
                return Err(("member-kind", format!("{}-published-as-{}", kind, o.kind)));
            }
            if &o.name != name {
                if *split_prone && Some(o.name.as_str()) == name.rsplit("::").next() {
                    return Err(("split", String::new()));
                }
                return Err(("type-name", "referenced-type-name-differs".into()));
            }
            Ok(())
        }
    }
}

fn shape_sig(sub: &str, r: &str) -> String {
    match sub {
        "harness" => format!("harness:shape:{r}"),
        "split" => SPLIT_SIG.to_string(),
        _ => format!("C41:{sub}:{r}"),
    }
}

fn check_type_name(path: &[String], annotated: bool, o: &OType, out: &mut Vec<Finding>) {
    let want = dds_name(path);
    if o.name != want {
        if path.len() > 1 && annotated && o.name == *path.last().unwrap() {
            out.push(finding(
                SPLIT_SIG,
                format!("{}: annotated type inside a module gets two #[dust_dds(..)] attributes, the second (name) is lost: published name {:?}", want, o.name),
            ));
            return;
        }
        let shape = if path.len() > 1 {
            "module-scoped-name-differs"
        } else {
            "name-differs"
        };
        out.push(finding(format!("C41:type-name:{shape}"), format!("{}: published name {:?}", want, o.name)));
    }
}

fn check_struct(syms: &Symbols, path: &[String], ext: &Option<Ext>, nested: bool, members: &[Member], o: &OType, out: &mut Vec<Finding>) {
    let name = dds_name(path);
    if o.kind != "STRUCTURE" {
        out.push(finding(format!("C41:type-kind:struct-published-as-{}", o.kind), name.clone()));
        return;
    }
    check_type_name(path, ext.is_some() || nested, o, out);
    match ext {
        Some(e) if o.ext != e.debug_name() => out.push(finding(
            format!("C41:extensibility:{}-published-as-{}", e.annot(), o.ext),
            format!("{name}: declared {}, published {}", e.annot(), o.ext),
        )),
        None if o.ext == "Mutable" => out.push(finding(
            "C41:extensibility:unannotated-published-as-Mutable",
            format!("{name}: no extensibility annotation, published Mutable"),
        )),
        _ => {}
    }
    // flatten declarators
    let flat: Vec<(&Member, usize)> = members.iter().flat_map(|m| (0..m.declarators.len()).map(move |i| (m, i))).collect();
    if flat.len() != o.members.len() {
        out.push(finding(
            "C41:members:count",
            format!("{name}: {} members declared, {} published", flat.len(), o.members.len()),
        ));
        return;
    }
    let ids = expected_ids(members);
    let mutable = *ext == Some(Ext::Mutable);
    for (k, ((m, di), om)) in flat.iter().zip(&o.members).enumerate() {
        let (dname, dims) = &m.declarators[*di];
        let multi = m.declarators.len() > 1;
        if &om.name != dname {
            out.push(finding("C41:member-name:differs", format!("{name}: member {dname:?} published as {:?}", om.name)));
        }
        let nann = m.key as usize + m.id.is_some() as usize + m.hashid as usize + m.optional as usize;
        if om.key != m.key {
            let shape = if multi && *di > 0 {
                "annotation-not-applied-to-later-declarators".to_string()
            } else if nann >= 2 {
                String::new()
            } else {
                format!("declared-{}-published-{}", m.key, om.key)
            };
            if shape.is_empty() {
                out.push(finding(SPLIT_SIG, format!("{name}.{dname}: member with several annotations, @key declared {}, published {}", m.key, om.key)));
            } else {
                out.push(finding(format!("C41:key:{shape}"), format!("{name}.{dname}: @key declared {}, published {}", m.key, om.key)));
            }
        }
        if om.opt != m.optional {
            let shape = if multi && *di > 0 {
                "annotation-not-applied-to-later-declarators".to_string()
            } else if nann >= 2 {
                String::new()
            } else {
                format!("declared-{}-published-{}", m.optional, om.opt)
            };
            if shape.is_empty() {
                out.push(finding(SPLIT_SIG, format!("{name}.{dname}: member with several annotations, @optional declared {}, published {}", m.optional, om.opt)));
            } else {
                out.push(finding(
                    format!("C41:optional:{shape}"),
                    format!("{name}.{dname}: @optional declared {}, published {}", m.optional, om.opt),
                ));
            }
        }
        let shape = with_dims(shape_of(syms, &m.spec), dims);
        if let Err((sub, r)) = shape_ok(&shape, &om.ty) {
            out.push(finding(
                shape_sig(sub, &r),
                format!("{name}.{dname}: declared {}, published {}", shape_text(&shape), om.ty.brief()),
            ));
        }
        if om.id != ids[k] as u64 {
            // which annotation determines this id
            let culprit: Option<&Member> = if m.id.is_some() || m.hashid {
                Some(*m)
            } else {
                flat[..k].iter().rev().map(|(mm, _)| *mm).find(|mm| mm.id.is_some() || mm.hashid)
            };
            let cann = culprit.map(|c| c.key as usize + c.id.is_some() as usize + c.hashid as usize + c.optional as usize).unwrap_or(0);
            let shape = match culprit {
                Some(c) if c.hashid => {
                    if std::ptr::eq(c, *m) && om.id == hash_id_raw(dname) as u64 {
                        "hashid-not-masked-to-28-bits"
                    } else {
                        "hashid-annotation-ignored"
                    }
                }
                Some(c) if c.id.is_some() && !mutable => {
                    let _ = c;
                    "explicit-id-ignored-in-final-or-appendable"
                }
                Some(c) if c.id.is_some() && cann >= 2 => "",
                Some(_) => "explicit-id-ignored",
                None => "sequential-id-wrong",
            };
            if shape.is_empty() {
                out.push(finding(SPLIT_SIG, format!("{name}.{dname}: member with several annotations, must have id {}, published {}", ids[k], om.id)));
            } else if !out.iter().any(|f| f.sig == format!("C41:member-id:{shape}")) {
                out.push(finding(
                    format!("C41:member-id:{shape}"),
                    format!("{name}.{dname}: must have id {} (0x{:x}), published {} (0x{:x})", ids[k], ids[k], om.id, om.id),
                ));
            }
        }
    }
}

fn check_enum(path: &[String], bit_bound: &Option<u32>, enumerators: &[(String, Option<u32>)], o: &OType, co: &CaseOut, out: &mut Vec<Finding>) {
    let name = dds_name(path);
    if o.kind != "ENUM" {
        out.push(finding(format!("C41:type-kind:enum-published-as-{}", o.kind), name.clone()));
        return;
    }
    check_type_name(path, bit_bound.is_some(), o, out);
    let want = match bit_bound {
        Some(b) if *b <= 8 => "INT8",
        Some(b) if *b <= 16 => "INT16",
        _ => "INT32",
    };
    let got = o.disc.as_ref().map(|d| d.kind.clone()).unwrap_or_else(|| "none".into());
    if got != want {
        out.push(finding(
            if bit_bound.is_some() { "C41:enum-bit-bound:declared-bound-not-published".to_string() } else { format!("C41:enum-bit-bound:default-published-as-{got}") },
            format!("{name}: holder {want} expected, {got} published"),
        ));
    }
    for (lit, val) in enum_values(enumerators) {
        match co.enum_vals.iter().find(|v| v.decl == name && v.lit == lit) {
            None => out.push(finding("harness:enumerator-line-missing", format!("{name}::{lit}"))),
            Some(v) => {
                if v.rust != val || v.dynv != Some(val) {
                    out.push(finding(
                        "C41:enumerators:value-differs",
                        format!("{name}::{lit} declared {val}, generated enum has {} / dynamic data {:?}", v.rust, v.dynv),
                    ));
                }
            }
        }
    }
}

fn check_union(syms: &Symbols, path: &[String], switch: &SwitchSpec, cases: &[UCase], o: &OType, out: &mut Vec<Finding>) {
    let name = dds_name(path);
    if o.kind != "UNION" {
        out.push(finding(format!("C41:type-kind:union-published-as-{}", o.kind), name.clone()));
        return;
    }
    check_type_name(path, false, o, out);
    let sw_shape = match switch {
        SwitchSpec::Prim(p) => Shape::Prim(*p),
        SwitchSpec::Enum(p, _) => Shape::Named("ENUM", dds_name(p), false),
    };
    match &o.disc {
        None => out.push(finding("C41:union-cases:no-discriminator-type", name.clone())),
        Some(d) => {
            if let Err((sub, r)) = shape_ok(&sw_shape, d) {
                out.push(finding(shape_sig(sub, &format!("switch-{r}")), format!("{name}: switch type published as {}", d.brief())));
            }
        }
    }
    let mut members: Vec<&OMember> = o.members.iter().collect();
    if members.len() == cases.len() + 1 && members[0].name == "discriminator" && members[0].labels.is_empty() {
        members.remove(0);
    }
    if members.len() != cases.len() {
        out.push(finding("C41:union-cases:count", format!("{name}: {} cases declared, {} published", cases.len(), members.len())));
        return;
    }
    for (c, m) in cases.iter().zip(&members) {
        let (dname, dims) = &c.declarator;
        if &m.name != dname {
            if !out.iter().any(|f| f.sig == "C41:union-cases:member-name-replaced-by-generated-variant-name") {
                out.push(finding(
                    "C41:union-cases:member-name-replaced-by-generated-variant-name",
                    format!("{name}: case member {dname:?} is published under the name {:?}", m.name),
                ));
            }
        }
        let shape = with_dims(shape_of(syms, &c.spec), dims);
        if let Err((sub, r)) = shape_ok(&shape, &m.ty) {
            out.push(finding(shape_sig(sub, &r), format!("{name}.{dname}: declared {}, published {}", shape_text(&shape), m.ty.brief())));
        }
        let is_default = c.labels.contains(&Label::Default);
        if m.default != is_default {
            out.push(finding(
                format!("C41:union-cases:default-declared-{}-published-{}", is_default, m.default),
                format!("{name}.{dname}"),
            ));
        }
        let mut want: Vec<i64> = c.labels.iter().filter_map(|l| l.value()).collect();
        want.sort();
        let mut got = m.labels.clone();
        got.sort();
        got.dedup();
        let others: Vec<i64> = cases.iter().filter(|cc| !std::ptr::eq(*cc, c)).flat_map(|cc| cc.labels.iter().filter_map(|l| l.value())).collect();
        // a `default:`-only case has no label; an implementation-chosen one is tolerated unless it is
        // another case's label
        let tolerated = want.is_empty() && is_default && !got.iter().any(|l| others.contains(l));
        if got != want && !tolerated {
            out.push(finding(
                if want.is_empty() && is_default { "C41:union-cases:default-only-case-published-with-label-of-another-case" } else { "C41:union-cases:labels-differ" },
                format!("{name}.{dname}: labels {:?} declared, {:?} published", want, got),
            ));
        }
    }
}

/// Rust path of a declaration inside the generated unit (module per IDL module)
pub fn rust_path(path: &[String]) -> String {
    path.join("::")
}

pub fn check_spec(spec: &Spec, co: &CaseOut) -> Vec<Finding> {
    let syms = symbols(spec);
    let mut out: Vec<Finding> = vec![];
    for l in &co.bad_lines {
        out.push(finding("harness:bad-dump-line", trunc(l, 300)));
    }
    for_each_def(&spec.defs, &mut vec![], &mut |modpath, d| {
        let mk = |n: &String| {
            let mut p = modpath.to_vec();
            p.push(n.clone());
            p
        };
        match d {
            Def::Struct { name, ext, nested, members } => {
                let p = mk(name);
                match co.types.get(&dds_name(&p)) {
                    Some(o) => check_struct(&syms, &p, ext, *nested, members, o, &mut out),
                    None => out.push(finding("harness:type-dump-missing", dds_name(&p))),
                }
            }
            Def::Enum { name, bit_bound, enumerators } => {
                let p = mk(name);
                match co.types.get(&dds_name(&p)) {
                    Some(o) => check_enum(&p, bit_bound, enumerators, o, co, &mut out),
                    None => out.push(finding("harness:type-dump-missing", dds_name(&p))),
                }
            }
            Def::Union { name, switch, cases } => {
                let p = mk(name);
                match co.types.get(&dds_name(&p)) {
                    Some(o) => check_union(&syms, &p, switch, cases, o, &mut out),
                    None => out.push(finding("harness:type-dump-missing", dds_name(&p))),
                }
            }
            Def::Typedef { spec: t, declarators } => {
                for (n, dims) in declarators {
                    let p = mk(n);
                    let key = format!("typedef {}", dds_name(&p));
                    match co.types.get(&key) {
                        Some(o) => {
                            let shape = with_dims(shape_of(&syms, t), dims);
                            if let Err((sub, r)) = shape_ok(&shape, &o.as_shallow()) {
                                out.push(finding(
                                    shape_sig(sub, &r),
                                    format!("typedef {}: declared {}, published {}", dds_name(&p), shape_text(&shape), o.as_shallow().brief()),
                                ));
                            }
                        }
                        None => out.push(finding("harness:type-dump-missing", key)),
                    }
                }
            }
            Def::Module { .. } => {}
        }
    });
    // one finding per signature
    let mut seen: Vec<String> = vec![];
    out.retain(|f| {
        if seen.contains(&f.sig) {
            false
        } else {
            seen.push(f.sig.clone());
            true
        }
    });
    out
}
