pub fn run(_ctx: &vcore::Ctx) -> ! {
    eprintln!("C41 not built yet");
    std::process::exit(2)
}
