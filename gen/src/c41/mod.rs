//! C41 — IDL compiler output matches the IDL declarations.
//! Every generated specification goes through `dust_dds_gen::compile_idl` in-process (panic / Err on
//! in-subset input are violations); the outputs become modules of one throw-away crate that must
//! compile against ${VERIF_REPO:-/repo}/dds and whose `main` prints the dynamic type descriptions,
//! which are compared with the IDL AST.

pub mod ast;
pub mod r#gen;
pub mod oracle;
pub mod shrink;

use crate::cb::{self, GenCrate};
use crate::dump::{self, Finding, finding};
use crate::rng::Src;
use ast::*;
use serde_json::{Value, json};
use std::collections::BTreeMap;
use std::sync::Mutex;
use std::time::Duration;
use vcore::{Ctx, Failure, Known, Meta, Report};

pub const RULE: &str = "specification has >= 2 declarations with a cross reference (scoped name), or a module, or an annotation";

pub fn case_json(s: &Spec) -> Value {
    json!({ "idl": render_idl(s), "ast": serde_json::to_value(s).unwrap() })
}

static LAST_PANIC: Mutex<Option<(String, String)>> = Mutex::new(None);

fn install_hook() {
    std::panic::set_hook(Box::new(|info| {
        let file = info.location().map(|l| l.file().to_string()).unwrap_or_default();
        let msg = if let Some(s) = info.payload().downcast_ref::<&str>() {
            s.to_string()
        } else if let Some(s) = info.payload().downcast_ref::<String>() {
            s.clone()
        } else {
            "?".to_string()
        };
        *LAST_PANIC.lock().unwrap() = Some((file, msg));
    }));
}

pub enum Compiled {
    Ok(String),
    Rejected(String),
    Panicked { file: String, msg: String },
}

fn normalise(msg: &str) -> String {
    let mut out = String::new();
    for c in msg.chars() {
        if c.is_ascii_digit() {
            if !out.ends_with('N') {
                out.push('N');
            }
        } else if c == '\n' {
            out.push(' ');
        } else {
            out.push(c);
        }
    }
    out.chars().take(100).collect()
}

fn repo_relative(file: &str) -> String {
    match file.find("dds_gen/") {
        Some(i) => file[i..].to_string(),
        None => file.to_string(),
    }
}

pub fn compile_one(dir: &std::path::Path, n: usize, text: &str) -> Compiled {
    let path = dir.join(format!("s{n}.idl"));
    if std::fs::write(&path, text).is_err() {
        return Compiled::Rejected("harness: cannot write idl".into());
    }
    *LAST_PANIC.lock().unwrap() = None;
    let p2 = path.clone();
    match std::panic::catch_unwind(move || dust_dds_gen::compile_idl(&p2)) {
        Ok(Ok(rust)) => Compiled::Ok(rust),
        Ok(Err(e)) => Compiled::Rejected(e),
        Err(_) => {
            let (file, msg) = LAST_PANIC.lock().unwrap().clone().unwrap_or_default();
            Compiled::Panicked { file: repo_relative(&file), msg }
        }
    }
}

/// the Rust module placed into the generated crate for one specification
fn render_unit(spec: &Spec, n: usize, rust: &str) -> String {
    let mut o = String::from("#![allow(warnings)]\n");
    o.push_str(rust);
    o.push_str("\npub fn verif_dump_unit() {\n    use dust_dds::xtypes::type_support::Type as VerifType;\n");
    for_each_def(&spec.defs, &mut vec![], &mut |modpath, d| {
        let mk = |name: &String| {
            let mut p = modpath.to_vec();
            p.push(name.clone());
            p
        };
        match d {
            Def::Struct { name, .. } | Def::Union { name, .. } => {
                let p = mk(name);
                o.push_str(&format!(
                    "    crate::support::dump_type({n}, \"{}\", &<{} as VerifType>::TYPE);\n",
                    dds_name(&p),
                    oracle::rust_path(&p)
                ));
            }
            Def::Enum { name, enumerators, .. } => {
                let p = mk(name);
                o.push_str(&format!(
                    "    crate::support::dump_type({n}, \"{}\", &<{} as VerifType>::TYPE);\n",
                    dds_name(&p),
                    oracle::rust_path(&p)
                ));
                for (lit, _) in enumerators {
                    o.push_str(&format!(
                        "    crate::support::enum_val({n}, \"{dn}\", \"{lit}\", {rp}::{lit} as i64, {rp}::{lit});\n",
                        dn = dds_name(&p),
                        rp = oracle::rust_path(&p)
                    ));
                }
            }
            Def::Typedef { declarators, .. } => {
                for (name, _) in declarators {
                    let p = mk(name);
                    o.push_str(&format!(
                        "    crate::support::dump_type({n}, \"typedef {}\", &<{} as VerifType>::TYPE);\n",
                        dds_name(&p),
                        oracle::rust_path(&p)
                    ));
                }
            }
            Def::Module { .. } => {}
        }
    });
    o.push_str("}\n");
    o
}

const STUB: &str = "pub fn verif_dump_unit() {}\n";

#[derive(Clone, Debug)]
pub enum Outcome {
    /// compiled and ran: oracle complaints (possibly none)
    Checked(Vec<Finding>),
    Panicked { key: String, msg: String },
    Rejected { key: String, msg: String },
    DoesNotCompile { key: String, msg: String },
}

pub struct BatchOutcome {
    pub outcomes: Vec<Outcome>,
    pub build_s: f64,
    pub builds: usize,
}

pub fn evaluate_batch(specs: &[Spec], run: &str, name: &str) -> Result<BatchOutcome, String> {
    let krate = GenCrate::create(run, name)?;
    let idl_dir = krate.dir.join("idl");
    let _ = std::fs::remove_dir_all(&idl_dir);
    std::fs::create_dir_all(&idl_dir).map_err(|e| e.to_string())?;
    let mut pre: BTreeMap<usize, Outcome> = BTreeMap::new();
    let mut main = String::from("#![allow(warnings)]\nmod support;\n");
    for i in 0..specs.len() {
        main.push_str(&format!("mod s{i};\n"));
    }
    main.push_str("fn main() {\n    support::init();\n");
    for i in 0..specs.len() {
        main.push_str(&format!("    s{i}::verif_dump_unit();\n"));
    }
    main.push_str("}\n");
    krate.write("src/main.rs", &main);
    for (i, s) in specs.iter().enumerate() {
        let text = render_idl(s);
        match compile_one(&idl_dir, i, &text) {
            Compiled::Ok(rust) => krate.write(&format!("src/s{i}.rs"), &render_unit(s, i, &rust)),
            Compiled::Rejected(e) => {
                krate.write(&format!("src/s{i}.rs"), STUB);
                pre.insert(i, Outcome::Rejected { key: reject_key(&e), msg: e });
            }
            Compiled::Panicked { file, msg } => {
                krate.write(&format!("src/s{i}.rs"), STUB);
                pre.insert(
                    i,
                    Outcome::Panicked {
                        key: format!("{}:{}", file, normalise(&msg)),
                        msg: format!("dust_dds_gen::compile_idl panicked at {file}: {}", dump::trunc(&msg, 200)),
                    },
                );
            }
        }
    }
    let (failed, build_s, builds) = cb::build_excluding(&krate, "s", &|_| STUB.to_string(), 10)?;
    let stdout = krate.run(Duration::from_secs(120))?;
    let outs = dump::parse_stdout(&stdout);
    let empty = dump::CaseOut::default();
    let mut outcomes = vec![];
    for (i, s) in specs.iter().enumerate() {
        if let Some(o) = pre.remove(&i) {
            outcomes.push(o);
        } else if let Some(ds) = failed.get(&i) {
            let d = &ds[0];
            outcomes.push(Outcome::DoesNotCompile {
                key: cb::diag_key(d),
                msg: format!("[{}] {} (at `{}`)", d.code, d.message, dump::trunc(&d.snippet, 60)),
            });
        } else {
            outcomes.push(Outcome::Checked(oracle::check_spec(s, outs.get(&i).unwrap_or(&empty))));
        }
    }
    Ok(BatchOutcome { outcomes, build_s, builds })
}

/// what a reduced candidate must still show
#[derive(Clone, Debug, PartialEq)]
pub enum Target {
    Sig(String),
    Panicked(String),
    Rejected(String),
    DoesNotCompile(String),
}

fn matches(o: &Outcome, t: &Target) -> bool {
    match (o, t) {
        (Outcome::Checked(fs), Target::Sig(s)) => fs.iter().any(|f| &f.sig == s),
        (Outcome::Panicked { key, .. }, Target::Panicked(k)) => key == k,
        (Outcome::Rejected { key, .. }, Target::Rejected(k)) => key == k,
        (Outcome::DoesNotCompile { key, .. }, Target::DoesNotCompile(k)) => key == k,
        _ => false,
    }
}

/// Outcome class of the IDL compiler alone (no build): used to minimise panics and rejections
fn compiler_outcome(dir: &std::path::Path, spec: &Spec) -> Option<Target> {
    match compile_one(dir, 0, &render_idl(spec)) {
        Compiled::Ok(_) => None,
        Compiled::Rejected(e) => Some(Target::Rejected(reject_key(&e))),
        Compiled::Panicked { file, msg } => Some(Target::Panicked(format!("{}:{}", file, normalise(&msg)))),
    }
}

fn reject_key(e: &str) -> String {
    // position independent part of the parser message
    let stripped: String = e.chars().filter(|c| !c.is_ascii_digit()).collect();
    let tail = stripped.rsplit("= ").next().unwrap_or(&stripped).trim().to_string();
    normalise(&tail).chars().take(80).collect()
}

fn minimise_in_process(spec: &Spec, target: &Target) -> Spec {
    let dir = cb::out_root().join("C41-inproc");
    let _ = std::fs::create_dir_all(&dir);
    let mut cur = spec.clone();
    for _ in 0..400 {
        let mut next = None;
        for c in shrink::reductions(&cur) {
            if compiler_outcome(&dir, &c).as_ref() == Some(target) {
                next = Some(c);
                break;
            }
        }
        match next {
            Some(c) => cur = c,
            None => break,
        }
    }
    cur
}

/// Delta debugging of several failing specifications at once: every round builds one crate holding
/// the single-step reductions of all of them and keeps, per item, the smallest one that still fails
/// the same way.
fn minimise_many(items: &[(Spec, Target)], tag: &str, max_rounds: usize) -> (Vec<Spec>, usize) {
    let mut cur: Vec<Spec> = items.iter().map(|(s, _)| s.clone()).collect();
    let mut active: Vec<bool> = vec![true; items.len()];
    let mut rounds = 0;
    let name = format!("genout_{}_min", tag.to_lowercase().replace('-', "_"));
    while rounds < max_rounds && active.iter().any(|a| *a) {
        let mut batch: Vec<Spec> = vec![];
        let mut owner: Vec<usize> = vec![];
        for (k, s) in cur.iter().enumerate() {
            if !active[k] {
                continue;
            }
            let c: Vec<Spec> = shrink::reductions(s).into_iter().take(40).collect();
            if c.is_empty() {
                active[k] = false;
            }
            for x in c {
                batch.push(x);
                owner.push(k);
            }
        }
        if batch.is_empty() {
            break;
        }
        rounds += 1;
        let Ok(out) = evaluate_batch(&batch, &format!("{tag}-min"), &name) else { break };
        let mut progressed = vec![false; items.len()];
        for ((spec, k), o) in batch.iter().zip(&owner).zip(&out.outcomes) {
            if progressed[*k] {
                continue;
            }
            if matches(o, &items[*k].1) {
                cur[*k] = spec.clone();
                progressed[*k] = true;
            }
        }
        for k in 0..items.len() {
            if active[k] && !progressed[k] {
                active[k] = false;
            }
        }
    }
    (cur, rounds)
}

fn corpus_path() -> std::path::PathBuf {
    vcore::verif_root().join("gen").join("corpus").join("C41.json")
}

/// Minimal failing specifications found earlier (committed seed corpus). They are re-checked on
/// every run; one that still fails the same way as a group of generated specifications is that
/// group's minimal case, which makes signatures stable and saves the minimisation rebuilds.
fn load_corpus() -> Vec<Spec> {
    let Ok(s) = std::fs::read_to_string(corpus_path()) else { return vec![] };
    let Ok(v) = serde_json::from_str::<Value>(&s) else { return vec![] };
    v["specs"].as_array().map(|a| a.iter().filter_map(|x| serde_json::from_value(x.clone()).ok()).collect()).unwrap_or_default()
}

fn save_corpus(specs: &[Spec]) {
    let p = corpus_path();
    if let Some(d) = p.parent() {
        let _ = std::fs::create_dir_all(d);
    }
    let v = json!({"note": "minimal failing IDL specifications (C41); regenerate with VERIF_GEN_UPDATE_CORPUS=1", "specs": specs});
    let _ = std::fs::write(p, serde_json::to_vec_pretty(&v).unwrap());
}

pub fn run(ctx: &Ctx) -> ! {
    install_hook();
    let mut report = Report::default();
    let tag = format!("C41-{}", ctx.tier.as_str());
    let crate_name = format!("genout_c41_{}", ctx.tier.as_str());
    if let Some(path) = &ctx.replay {
        let v = vcore::load_replay(path);
        let spec: Spec = match serde_json::from_value(v["ast"].clone()) {
            Ok(c) => c,
            Err(e) => {
                eprintln!("replay file does not hold a C41 case: {e}");
                std::process::exit(2)
            }
        };
        println!("--- IDL ---\n{}", render_idl(&spec));
        match evaluate_batch(std::slice::from_ref(&spec), "C41-replay", "genout_c41_replay") {
            Ok(out) => {
                report.stats.evaluations = 1;
                let shape = oracle::shape_of_features(&oracle::features(&spec));
                let fs: Vec<Finding> = match &out.outcomes[0] {
                    Outcome::Checked(fs) => fs.clone(),
                    Outcome::Panicked { key, msg } => vec![finding(format!("C41:panic:{key}:{shape}"), msg.clone())],
                    Outcome::Rejected { msg, .. } => vec![finding(format!("C41:rejects-valid:{shape}"), format!("compile_idl returned Err: {msg}"))],
                    Outcome::DoesNotCompile { msg, .. } => {
                        vec![finding(format!("C41:does-not-compile:{shape}"), format!("generated Rust does not compile: {msg}"))]
                    }
                };
                if let Compiled::Ok(r) = compile_one(&cb::out_root().join("C41-replay").join("idl"), 0, &render_idl(&spec)) {
                    println!("--- generated Rust ---\n{r}");
                }
                for f in &fs {
                    println!("oracle: {} -- {}", f.sig, f.what);
                    report.failures.push(Failure {
                        signature: f.sig.clone(),
                        what: f.what.clone(),
                        case: case_json(&spec),
                        shrunk_from: None,
                        shrunk_to: None,
                    });
                }
                if fs.is_empty() {
                    println!("oracle: no complaint");
                }
            }
            Err(e) => report.inconclusive.push(e),
        }
        vcore::finish(ctx, Meta { rule: RULE, assumptions: ASSUMPTIONS, nontrivial_floor: 0 }, report);
    }

    let batches: usize = ctx.pick(1, 6);
    let per_batch: usize = ctx.pick(150, 300);
    let known = Known::load(&ctx.id);
    let mut src = Src::new(ctx.rng_seed("c41"));
    let mut build_s = 0.0;
    let mut builds = 0;
    // structural / panic findings: signature -> (smallest spec, what, count)
    let mut by_sig: BTreeMap<String, (Spec, String, u64)> = BTreeMap::new();
    // compile failures and rejections are grouped by diagnostic first; the signature comes from the
    // minimised representative: (is_reject, key) -> (smallest spec, message, count)
    let mut groups: BTreeMap<(u8, String), (Spec, String, u64)> = BTreeMap::new();
    let mut compiled_ok = 0u64;
    let corpus = load_corpus();
    // (class, key) -> smallest corpus specification failing that way
    let mut corpus_hit: BTreeMap<(u8, String), Spec> = BTreeMap::new();
    for b in 0..batches {
        let mut specs: Vec<Spec> = (0..per_batch).map(|_| r#gen::gen_spec(&mut src)).collect();
        if b == 0 {
            specs.extend(corpus.iter().cloned());
        }
        let out = match evaluate_batch(&specs, &tag, &crate_name) {
            Ok(o) => o,
            Err(e) => {
                report.inconclusive.push(format!("batch {b}: {e}"));
                break;
            }
        };
        build_s += out.build_s;
        builds += out.builds;
        for (k, (s, o)) in specs.iter().zip(&out.outcomes).enumerate() {
            if k >= per_batch {
                // corpus entry: only remembered as a candidate minimal case
                let ck = match o {
                    Outcome::Panicked { key, .. } => Some((0u8, key.clone())),
                    Outcome::Rejected { key, .. } => Some((1u8, key.clone())),
                    Outcome::DoesNotCompile { key, .. } => Some((2u8, key.clone())),
                    Outcome::Checked(_) => None,
                };
                if let Some(ck) = ck {
                    match corpus_hit.get(&ck) {
                        Some(old) if shrink::size(old) <= shrink::size(s) => {}
                        _ => {
                            corpus_hit.insert(ck, s.clone());
                        }
                    }
                }
                continue;
            }
            let feats = oracle::features(s);
            let classes: Vec<String> = feats.iter().cloned().collect();
            let key = vcore::hash_json(&serde_json::to_value(s).unwrap());
            let nontrivial = oracle::nontrivial(&feats);
            report.stats.case(key, nontrivial, &classes);
            if nontrivial && report.stats.wants_sample() && feats.len() >= 8 {
                report.stats.sample(json!({"idl": render_idl(s)}));
            }
            let mut add_sig = |sig: &str, what: &str, spec: &Spec| {
                let e = by_sig.entry(sig.to_string()).or_insert_with(|| (spec.clone(), what.to_string(), 0));
                e.2 += 1;
                if shrink::size(spec) < shrink::size(&e.0) {
                    e.0 = spec.clone();
                    e.1 = what.to_string();
                }
            };
            match o {
                Outcome::Checked(fs) => {
                    compiled_ok += 1;
                    report.stats.class("outcome:compiled-and-compared");
                    for f in fs {
                        if f.sig.starts_with("harness:") {
                            report.inconclusive.push(format!("{}: {}", f.sig, f.what));
                        } else {
                            add_sig(&f.sig, &f.what, s);
                        }
                    }
                }
                Outcome::Panicked { key, msg } => {
                    report.stats.class("outcome:compiler-panicked");
                    let e = groups.entry((0, key.clone())).or_insert_with(|| (s.clone(), msg.clone(), 0));
                    e.2 += 1;
                    if shrink::size(s) < shrink::size(&e.0) {
                        e.0 = s.clone();
                        e.1 = msg.clone();
                    }
                }
                Outcome::Rejected { key, msg } => {
                    report.stats.class("outcome:compiler-returned-err");
                    let e = groups.entry((1, key.clone())).or_insert_with(|| (s.clone(), msg.clone(), 0));
                    e.2 += 1;
                    if shrink::size(s) < shrink::size(&e.0) {
                        e.0 = s.clone();
                        e.1 = msg.clone();
                    }
                }
                Outcome::DoesNotCompile { key, msg } => {
                    report.stats.class("outcome:output-does-not-compile");
                    let e = groups.entry((2, key.clone())).or_insert_with(|| (s.clone(), msg.clone(), 0));
                    e.2 += 1;
                    if shrink::size(s) < shrink::size(&e.0) {
                        e.0 = s.clone();
                        e.1 = msg.clone();
                    }
                }
            }
        }
    }
    report.stats.extra.insert("generated_crate_build_s".into(), json!(build_s));
    report.stats.extra.insert("generated_crate_builds".into(), json!(builds));
    report.stats.extra.insert("specs_compiled_and_compared".into(), json!(compiled_ok));

    // 1. compiler panics / rejections / outputs that do not compile: one representative per
    //    diagnostic group is minimised (panics and rejections in-process, the rest in shared build
    //    rounds); the signature shape is the feature set of the minimal specification
    let mut min_rounds = 0;
    let mut sig_counts: BTreeMap<String, u64> = BTreeMap::new();
    let mut minimal: BTreeMap<(u8, String), Spec> = BTreeMap::new();
    let mut build_items: Vec<((u8, String), (Spec, Target))> = vec![];
    let mut new_minimal: Vec<Spec> = vec![];
    for ((class, key), (s, _, _)) in &groups {
        if let Some(c) = corpus_hit.get(&(*class, key.clone())) {
            minimal.insert((*class, key.clone()), c.clone());
            continue;
        }
        match class {
            0 => {
                minimal.insert((*class, key.clone()), minimise_in_process(s, &Target::Panicked(key.clone())));
            }
            1 => {
                minimal.insert((*class, key.clone()), minimise_in_process(s, &Target::Rejected(key.clone())));
            }
            _ => build_items.push(((*class, key.clone()), (s.clone(), Target::DoesNotCompile(key.clone())))),
        }
    }
    if !build_items.is_empty() {
        let items: Vec<(Spec, Target)> = build_items.iter().map(|(_, it)| it.clone()).collect();
        let (mins, rounds) = minimise_many(&items, &tag, ctx.pick(16, 24));
        min_rounds += rounds;
        for ((k, _), m) in build_items.iter().zip(mins) {
            minimal.insert(k.clone(), m);
        }
    }
    for (k, m) in &minimal {
        if !corpus_hit.contains_key(k) {
            new_minimal.push(m.clone());
        }
    }
    report.stats.extra.insert("corpus_entries_used".into(), json!(corpus_hit.len()));
    report.stats.extra.insert("groups_minimised_in_this_run".into(), json!(new_minimal.len()));
    if std::env::var("VERIF_GEN_UPDATE_CORPUS").is_ok() && !new_minimal.is_empty() {
        let mut all = corpus.clone();
        for m in new_minimal {
            if !all.contains(&m) {
                all.push(m);
            }
        }
        save_corpus(&all);
    }
    for ((class, key), (orig, msg, count)) in &groups {
        let min = &minimal[&(*class, key.clone())];
        let shape = oracle::shape_of_features(&oracle::features(min));
        let (sig, what) = match class {
            0 => (format!("C41:panic:{key}:{shape}"), msg.clone()),
            1 => (format!("C41:rejects-valid:{shape}"), format!("compile_idl returned Err for a valid specification: {}", dump::trunc(msg, 300))),
            _ => (format!("C41:does-not-compile:{shape}"), format!("the generated Rust does not compile against dust_dds: {}", dump::trunc(msg, 300))),
        };
        sig_counts.insert(sig.clone(), *count);
        if known.matches(&sig) {
            *report.stats.excluded_known.entry(sig).or_insert(0) += count;
        } else {
            report.failures.push(Failure {
                signature: sig,
                what,
                case: case_json(min),
                shrunk_from: Some(shrink::size(orig) as u64),
                shrunk_to: Some(shrink::size(min) as u64),
            });
        }
    }
    // 2. structural findings and compiler panics: signature is known up front
    let mut unknown: Vec<(String, Spec, String)> = vec![];
    for (sig, (spec, what, count)) in by_sig {
        sig_counts.insert(sig.clone(), count);
        if known.matches(&sig) {
            *report.stats.excluded_known.entry(sig).or_insert(0) += count;
        } else {
            unknown.push((sig, spec, what));
        }
    }
    if !unknown.is_empty() {
        let items: Vec<(Spec, Target)> = unknown.iter().map(|(sig, s, _)| (s.clone(), Target::Sig(sig.clone()))).collect();
        let (mins, rounds) = minimise_many(&items, &tag, ctx.pick(16, 24));
        min_rounds += rounds;
        // explanation from the minimal case
        let whats: Vec<Option<String>> = match evaluate_batch(&mins, &format!("{tag}-min"), &format!("genout_{}_min", tag.to_lowercase().replace('-', "_"))) {
            Ok(o) => o
                .outcomes
                .iter()
                .zip(&unknown)
                .map(|(o, (sig, _, _))| match o {
                    Outcome::Checked(fs) => fs.iter().find(|f| &f.sig == sig).map(|f| f.what.clone()),
                    _ => None,
                })
                .collect(),
            Err(_) => vec![None; unknown.len()],
        };
        for (((sig, orig, what), min), w) in unknown.into_iter().zip(mins).zip(whats) {
            report.failures.push(Failure {
                signature: sig,
                what: w.unwrap_or(what),
                case: case_json(&min),
                shrunk_from: Some(shrink::size(&orig) as u64),
                shrunk_to: Some(shrink::size(&min) as u64),
            });
        }
    }
    report.stats.extra.insert("minimisation_rounds".into(), json!(min_rounds));
    report.stats.extra.insert("specs_per_signature".into(), json!(sig_counts));
    let floor = ctx.pick(75, 900);
    vcore::finish(ctx, Meta { rule: RULE, assumptions: ASSUMPTIONS, nontrivial_floor: floor }, report);
}

pub const ASSUMPTIONS: &[&str] = &[
    "supported subset = what dds_gen/tests/*.idl, the pest grammar and generator/rust.rs handle: modules, structs without inheritance, enums, unions, typedefs, (w)strings, sequences, arrays, scoped names, @key @id @hashid @optional @final @appendable @mutable @nested @bit_bound @value, comments, include guards, #define'd sizes",
    "not generated: fixed, long double, any, map, bitset/bitmask, interfaces, constants, struct inheritance, annotations on unions/typedefs",
    "each specification's output is placed in its own module file of the generated crate (like include!-ing it into a module)",
    "member ids follow XTypes 1.3 7.3.1.2.1.1; unannotated types may be Final or Appendable; octet/uint8 may be BYTE or UINT8; typedefs are transparent; the encoding of 'unbounded' is free",
    "enumerators are checked through the generated Rust enum (literal names and values) and the dynamic data of each literal, because the dynamic type description has no place for literals",
];
