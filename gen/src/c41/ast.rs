//! AST of generated IDL specifications (the subset dust_dds_gen's Rust back end handles), rendering to
//! IDL text, symbol table and the structure the IDL declares.

use serde::{Deserialize, Serialize};
use std::collections::BTreeMap;

#[derive(Clone, Copy, Debug, PartialEq, Eq, Serialize, Deserialize)]
pub enum IPrim {
    Boolean,
    Char,
    WChar,
    Octet,
    Short,
    UShort,
    Long,
    ULong,
    LongLong,
    ULongLong,
    Int8,
    UInt8,
    Int16,
    UInt16,
    Int32,
    UInt32,
    Int64,
    UInt64,
    Float,
    Double,
}

pub const ALL_IPRIMS: [IPrim; 20] = [
    IPrim::Boolean,
    IPrim::Char,
    IPrim::WChar,
    IPrim::Octet,
    IPrim::Short,
    IPrim::UShort,
    IPrim::Long,
    IPrim::ULong,
    IPrim::LongLong,
    IPrim::ULongLong,
    IPrim::Int8,
    IPrim::UInt8,
    IPrim::Int16,
    IPrim::UInt16,
    IPrim::Int32,
    IPrim::UInt32,
    IPrim::Int64,
    IPrim::UInt64,
    IPrim::Float,
    IPrim::Double,
];

impl IPrim {
    pub fn idl(&self) -> &'static str {
        match self {
            IPrim::Boolean => "boolean",
            IPrim::Char => "char",
            IPrim::WChar => "wchar",
            IPrim::Octet => "octet",
            IPrim::Short => "short",
            IPrim::UShort => "unsigned short",
            IPrim::Long => "long",
            IPrim::ULong => "unsigned long",
            IPrim::LongLong => "long long",
            IPrim::ULongLong => "unsigned long long",
            IPrim::Int8 => "int8",
            IPrim::UInt8 => "uint8",
            IPrim::Int16 => "int16",
            IPrim::UInt16 => "uint16",
            IPrim::Int32 => "int32",
            IPrim::UInt32 => "uint32",
            IPrim::Int64 => "int64",
            IPrim::UInt64 => "uint64",
            IPrim::Float => "float",
            IPrim::Double => "double",
        }
    }
    /// TypeKind names that describe this IDL type (XTypes 1.3 Table 13; octet/uint8 share the wire form)
    pub fn kinds(&self) -> &'static [&'static str] {
        match self {
            IPrim::Boolean => &["BOOLEAN"],
            IPrim::Char => &["CHAR8"],
            IPrim::WChar => &["CHAR16"],
            IPrim::Octet | IPrim::UInt8 => &["BYTE", "UINT8"],
            IPrim::Short | IPrim::Int16 => &["INT16"],
            IPrim::UShort | IPrim::UInt16 => &["UINT16"],
            IPrim::Long | IPrim::Int32 => &["INT32"],
            IPrim::ULong | IPrim::UInt32 => &["UINT32"],
            IPrim::LongLong | IPrim::Int64 => &["INT64"],
            IPrim::ULongLong | IPrim::UInt64 => &["UINT64"],
            IPrim::Int8 => &["INT8"],
            IPrim::Float => &["FLOAT32"],
            IPrim::Double => &["FLOAT64"],
        }
    }
}

#[derive(Clone, Copy, Debug, PartialEq, Eq, Serialize, Deserialize)]
pub enum RefStyle {
    /// shortest name valid under IDL scoping (searches the enclosing scopes)
    Relative,
    /// `::A::B::T`
    Absolute,
}

#[derive(Clone, Debug, PartialEq, Serialize, Deserialize)]
pub enum TSpec {
    Prim(IPrim),
    Str(Option<u32>),
    WStr(Option<u32>),
    Seq(Box<TSpec>, Option<u32>),
    /// absolute path of the referenced declaration
    Ref(Vec<String>, RefStyle),
}

#[derive(Clone, Copy, Debug, PartialEq, Eq, Serialize, Deserialize)]
pub enum Ext {
    Final,
    Appendable,
    Mutable,
}

impl Ext {
    pub fn annot(&self) -> &'static str {
        match self {
            Ext::Final => "@final",
            Ext::Appendable => "@appendable",
            Ext::Mutable => "@mutable",
        }
    }
    pub fn debug_name(&self) -> &'static str {
        match self {
            Ext::Final => "Final",
            Ext::Appendable => "Appendable",
            Ext::Mutable => "Mutable",
        }
    }
}

/// a declarator: name and array dimensions (empty = simple declarator)
pub type Declarator = (String, Vec<u32>);

#[derive(Clone, Debug, PartialEq, Serialize, Deserialize)]
pub struct Member {
    pub key: bool,
    pub id: Option<u32>,
    pub hashid: bool,
    pub optional: bool,
    pub spec: TSpec,
    pub declarators: Vec<Declarator>,
}

#[derive(Clone, Debug, PartialEq, Serialize, Deserialize)]
pub enum Label {
    Int(i64),
    Char(u8),
    Bool(bool),
    /// enumerator name and its value
    Enumerator(String, i64),
    Default,
}

impl Label {
    pub fn value(&self) -> Option<i64> {
        match self {
            Label::Int(v) => Some(*v),
            Label::Char(c) => Some(*c as i64),
            Label::Bool(b) => Some(*b as i64),
            Label::Enumerator(_, v) => Some(*v),
            Label::Default => None,
        }
    }
}

#[derive(Clone, Debug, PartialEq, Serialize, Deserialize)]
pub enum SwitchSpec {
    Prim(IPrim),
    Enum(Vec<String>, RefStyle),
}

#[derive(Clone, Debug, PartialEq, Serialize, Deserialize)]
pub struct UCase {
    pub labels: Vec<Label>,
    pub spec: TSpec,
    pub declarator: Declarator,
}

#[derive(Clone, Debug, PartialEq, Serialize, Deserialize)]
pub enum Def {
    Module { name: String, defs: Vec<Def> },
    Struct { name: String, ext: Option<Ext>, nested: bool, members: Vec<Member> },
    Enum { name: String, bit_bound: Option<u32>, enumerators: Vec<(String, Option<u32>)> },
    Union { name: String, switch: SwitchSpec, cases: Vec<UCase> },
    Typedef { spec: TSpec, declarators: Vec<Declarator> },
}

#[derive(Clone, Debug, PartialEq, Serialize, Deserialize)]
pub struct Spec {
    pub defs: Vec<Def>,
    /// wrap the file in `#ifndef X / #define X / #endif`
    pub guard: Option<String>,
    /// `#define NAME value` lines; array sizes equal to `value` are written as NAME
    pub defines: Vec<(String, u32)>,
    /// 0 = compact, 1 = comments and blank lines
    pub style: u8,
}

// ---------------------------------------------------------------------------------------------
// symbol table

#[derive(Clone, Debug)]
pub enum Sym {
    /// true = carries an extensibility annotation and lives in a module (the generated item then has two
    /// `#[dust_dds(..)]` attributes)
    Struct(bool),
    Enum(Vec<(String, i64)>),
    Union,
    Typedef(TSpec, Vec<u32>),
}

pub type Symbols = BTreeMap<Vec<String>, Sym>;

pub fn enum_values(enumerators: &[(String, Option<u32>)]) -> Vec<(String, i64)> {
    let mut out = vec![];
    let mut next = 0i64;
    for (n, v) in enumerators {
        let val = v.map(|x| x as i64).unwrap_or(next);
        out.push((n.clone(), val));
        next = val + 1;
    }
    out
}

pub fn collect_symbols(defs: &[Def], path: &mut Vec<String>, out: &mut Symbols) {
    for d in defs {
        match d {
            Def::Module { name, defs } => {
                path.push(name.clone());
                collect_symbols(defs, path, out);
                path.pop();
            }
            Def::Struct { name, ext, .. } => {
                let mut p = path.clone();
                p.push(name.clone());
                out.insert(p, Sym::Struct(ext.is_some() && !path.is_empty()));
            }
            Def::Enum { name, enumerators, .. } => {
                let mut p = path.clone();
                p.push(name.clone());
                out.insert(p, Sym::Enum(enum_values(enumerators)));
            }
            Def::Union { name, .. } => {
                let mut p = path.clone();
                p.push(name.clone());
                out.insert(p, Sym::Union);
            }
            Def::Typedef { spec, declarators } => {
                for (n, dims) in declarators {
                    let mut p = path.clone();
                    p.push(n.clone());
                    out.insert(p, Sym::Typedef(spec.clone(), dims.clone()));
                }
            }
        }
    }
}

pub fn symbols(spec: &Spec) -> Symbols {
    let mut out = Symbols::new();
    collect_symbols(&spec.defs, &mut vec![], &mut out);
    out
}

// ---------------------------------------------------------------------------------------------
// declared structure (what the IDL says), with typedefs resolved

#[derive(Clone, Debug, PartialEq)]
pub enum Shape {
    Prim(IPrim),
    /// bound, wide
    Str(Option<u32>, bool),
    Seq(Box<Shape>, Option<u32>),
    /// all dimensions, outermost first
    Arr(Vec<u32>, Box<Shape>),
    /// TypeKind name, DDS type name, "annotated struct inside a module"
    Named(&'static str, String, bool),
    /// reference that does not resolve (generator bug)
    Unknown,
}

pub fn dds_name(path: &[String]) -> String {
    path.join("::")
}

pub fn with_dims(inner: Shape, dims: &[u32]) -> Shape {
    if dims.is_empty() {
        return inner;
    }
    match inner {
        Shape::Arr(mut d2, e) => {
            let mut d = dims.to_vec();
            d.append(&mut d2);
            Shape::Arr(d, e)
        }
        other => Shape::Arr(dims.to_vec(), Box::new(other)),
    }
}

pub fn shape_of(syms: &Symbols, t: &TSpec) -> Shape {
    match t {
        TSpec::Prim(p) => Shape::Prim(*p),
        TSpec::Str(b) => Shape::Str(*b, false),
        TSpec::WStr(b) => Shape::Str(*b, true),
        TSpec::Seq(e, b) => Shape::Seq(Box::new(shape_of(syms, e)), *b),
        TSpec::Ref(path, _) => match syms.get(path) {
            Some(Sym::Struct(a)) => Shape::Named("STRUCTURE", dds_name(path), *a),
            Some(Sym::Enum(_)) => Shape::Named("ENUM", dds_name(path), false),
            Some(Sym::Union) => Shape::Named("UNION", dds_name(path), false),
            Some(Sym::Typedef(spec, dims)) => with_dims(shape_of(syms, spec), dims),
            None => Shape::Unknown,
        },
    }
}

pub fn shape_text(s: &Shape) -> String {
    match s {
        Shape::Prim(p) => p.idl().to_string(),
        Shape::Str(b, w) => format!("{}{}", if *w { "wstring" } else { "string" }, b.map(|b| format!("<{b}>")).unwrap_or_default()),
        Shape::Seq(e, b) => format!("sequence<{}{}>", shape_text(e), b.map(|b| format!(",{b}")).unwrap_or_default()),
        Shape::Arr(d, e) => format!("{}{}", shape_text(e), d.iter().map(|x| format!("[{x}]")).collect::<String>()),
        Shape::Named(k, n, _) => format!("{k}({n})"),
        Shape::Unknown => "?".into(),
    }
}

// ---------------------------------------------------------------------------------------------
// rendering to IDL text

/// name as written at `cur` (module path) under IDL scoping rules
pub fn render_ref(cur: &[String], target: &[String], style: RefStyle) -> String {
    match style {
        RefStyle::Absolute => format!("::{}", target.join("::")),
        RefStyle::Relative => {
            let tmod = &target[..target.len() - 1];
            let mut common = 0;
            while common < cur.len() && common < tmod.len() && cur[common] == tmod[common] {
                common += 1;
            }
            target[common..].join("::")
        }
    }
}

pub fn render_tspec(cur: &[String], t: &TSpec) -> String {
    match t {
        TSpec::Prim(p) => p.idl().to_string(),
        TSpec::Str(None) => "string".into(),
        TSpec::Str(Some(b)) => format!("string<{b}>"),
        TSpec::WStr(None) => "wstring".into(),
        TSpec::WStr(Some(b)) => format!("wstring<{b}>"),
        TSpec::Seq(e, None) => format!("sequence<{}>", render_tspec(cur, e)),
        TSpec::Seq(e, Some(b)) => format!("sequence<{}, {}>", render_tspec(cur, e), b),
        TSpec::Ref(p, st) => render_ref(cur, p, *st),
    }
}

fn render_declarator(d: &Declarator, defines: &[(String, u32)]) -> String {
    let mut o = d.0.clone();
    for dim in &d.1 {
        match defines.iter().find(|(_, v)| v == dim) {
            Some((n, _)) => o.push_str(&format!("[{n}]")),
            None => o.push_str(&format!("[{dim}]")),
        }
    }
    o
}

fn render_label(l: &Label, cur: &[String], switch: &SwitchSpec) -> String {
    match l {
        Label::Int(v) => format!("case {v}:"),
        Label::Char(c) => format!("case '{}':", *c as char),
        Label::Bool(b) => format!("case {}:", if *b { "TRUE" } else { "FALSE" }),
        Label::Enumerator(n, _) => {
            // enumerators live in the scope enclosing their enum
            let scoped = match switch {
                SwitchSpec::Enum(p, st) => {
                    let mut q = p[..p.len() - 1].to_vec();
                    q.push(n.clone());
                    render_ref(cur, &q, *st)
                }
                _ => n.clone(),
            };
            format!("case {scoped}:")
        }
        Label::Default => "default:".into(),
    }
}

fn render_defs(defs: &[Def], cur: &mut Vec<String>, spec: &Spec, ind: usize, o: &mut String) {
    let pad = "    ".repeat(ind);
    let verbose = spec.style == 1;
    for d in defs {
        match d {
            Def::Module { name, defs } => {
                if verbose {
                    o.push_str(&format!("{pad}/* module {name} */\n"));
                }
                o.push_str(&format!("{pad}module {name} {{\n"));
                cur.push(name.clone());
                render_defs(defs, cur, spec, ind + 1, o);
                cur.pop();
                o.push_str(&format!("{pad}}};\n"));
            }
            Def::Struct { name, ext, nested, members } => {
                if let Some(e) = ext {
                    o.push_str(&format!("{pad}{}\n", e.annot()));
                }
                if *nested {
                    o.push_str(&format!("{pad}@nested\n"));
                }
                o.push_str(&format!("{pad}struct {name} {{\n"));
                for m in members {
                    let mut a = String::new();
                    if m.key {
                        a.push_str("@key ");
                    }
                    if let Some(id) = m.id {
                        a.push_str(&format!("@id({id}) "));
                    }
                    if m.hashid {
                        a.push_str("@hashid ");
                    }
                    if m.optional {
                        a.push_str("@optional ");
                    }
                    let decls: Vec<String> = m.declarators.iter().map(|d| render_declarator(d, &spec.defines)).collect();
                    o.push_str(&format!("{pad}    {a}{} {};", render_tspec(cur, &m.spec), decls.join(", ")));
                    if verbose && m.key {
                        o.push_str(" // part of the key");
                    }
                    o.push('\n');
                }
                o.push_str(&format!("{pad}}};\n"));
            }
            Def::Enum { name, bit_bound, enumerators } => {
                if let Some(b) = bit_bound {
                    o.push_str(&format!("{pad}@bit_bound({b})\n"));
                }
                let lits: Vec<String> = enumerators
                    .iter()
                    .map(|(n, v)| match v {
                        Some(v) => format!("@value({v}) {n}"),
                        None => n.clone(),
                    })
                    .collect();
                if verbose {
                    o.push_str(&format!("{pad}enum {name}\n{pad}{{\n{pad}    {}\n{pad}}};\n", lits.join(&format!(",\n{pad}    "))));
                } else {
                    o.push_str(&format!("{pad}enum {name} {{ {} }};\n", lits.join(", ")));
                }
            }
            Def::Union { name, switch, cases } => {
                let sw = match switch {
                    SwitchSpec::Prim(p) => p.idl().to_string(),
                    SwitchSpec::Enum(p, st) => render_ref(cur, p, *st),
                };
                o.push_str(&format!("{pad}union {name} switch ({sw}) {{\n"));
                for c in cases {
                    for l in &c.labels {
                        o.push_str(&format!("{pad}    {}\n", render_label(l, cur, switch)));
                    }
                    o.push_str(&format!(
                        "{pad}        {} {};\n",
                        render_tspec(cur, &c.spec),
                        render_declarator(&c.declarator, &spec.defines)
                    ));
                }
                o.push_str(&format!("{pad}}};\n"));
            }
            Def::Typedef { spec: t, declarators } => {
                let decls: Vec<String> = declarators.iter().map(|d| render_declarator(d, &spec.defines)).collect();
                o.push_str(&format!("{pad}typedef {} {};\n", render_tspec(cur, t), decls.join(", ")));
            }
        }
        if verbose {
            o.push('\n');
        }
    }
}

pub fn render_idl(spec: &Spec) -> String {
    let mut o = String::new();
    if spec.style == 1 {
        o.push_str("// generated specification\n");
    }
    if let Some(g) = &spec.guard {
        o.push_str(&format!("#ifndef {g}\n#define {g}\n"));
    }
    for (n, v) in &spec.defines {
        o.push_str(&format!("#define {n} {v}\n"));
    }
    render_defs(&spec.defs, &mut vec![], spec, 0, &mut o);
    if spec.guard.is_some() {
        o.push_str("#endif\n");
    }
    o
}

// ---------------------------------------------------------------------------------------------
// iteration helpers

/// calls `f(module path, def)` for every non-module definition
pub fn for_each_def<'a>(defs: &'a [Def], path: &mut Vec<String>, f: &mut dyn FnMut(&[String], &'a Def)) {
    for d in defs {
        match d {
            Def::Module { name, defs } => {
                path.push(name.clone());
                for_each_def(defs, path, f);
                path.pop();
            }
            other => f(path, other),
        }
    }
}
