//! All random choices of the generators come from the proptest runner's RNG (seeded from VERIF_SEED).

use proptest::prelude::{Rng, RngCore};
use proptest::test_runner::TestRunner;

pub struct Src {
    runner: TestRunner,
}

impl Src {
    pub fn new(seed: u64) -> Src {
        Src { runner: vcore::pt::runner(1, seed, 0) }
    }
    pub fn u64(&mut self) -> u64 {
        self.runner.rng().next_u64()
    }
    /// uniform in 0..n (n > 0)
    pub fn below(&mut self, n: usize) -> usize {
        if n <= 1 {
            return 0;
        }
        self.runner.rng().random_range(0..n)
    }
    /// inclusive range
    pub fn range(&mut self, lo: i64, hi: i64) -> i64 {
        if hi <= lo {
            return lo;
        }
        self.runner.rng().random_range(lo..=hi)
    }
    pub fn chance(&mut self, percent: u32) -> bool {
        (self.below(100) as u32) < percent
    }
    pub fn pick<'b, T>(&mut self, xs: &'b [T]) -> &'b T {
        &xs[self.below(xs.len())]
    }
    /// index chosen according to integer weights
    pub fn weighted(&mut self, weights: &[u32]) -> usize {
        let total: u32 = weights.iter().sum();
        let mut x = self.below(total.max(1) as usize) as u32;
        for (i, w) in weights.iter().enumerate() {
            if x < *w {
                return i;
            }
            x -= *w;
        }
        weights.len() - 1
    }
}
