//! Generated-crate plumbing: write a throw-away crate under /verif/gen/out/<run>/, build it offline
//! against ${VERIF_REPO:-/repo}/dds in the shared target dir, attribute compiler errors to generated
//! files, run the binary and collect its stdout.

use serde_json::Value;
use std::{
    collections::BTreeMap,
    io::Read,
    path::PathBuf,
    process::{Command, Stdio},
    time::{Duration, Instant},
};

pub const SUPPORT_RS: &str = include_str!("support_rs.txt");

pub fn repo_root() -> String {
    std::env::var("VERIF_REPO").unwrap_or_else(|_| "/repo".to_string())
}

pub fn out_root() -> PathBuf {
    vcore::verif_root().join("gen").join("out")
}

pub fn target_dir() -> PathBuf {
    match std::env::var("VERIF_GENOUT_TARGET") {
        Ok(p) => PathBuf::from(p),
        Err(_) => vcore::verif_root().join("target-genout"),
    }
}

#[derive(Debug, Clone)]
pub struct Diag {
    /// file relative to the crate root, e.g. `src/c17.rs` ("" when rustc gave no span)
    pub file: String,
    pub code: String,
    pub message: String,
    /// source text under the primary span
    pub snippet: String,
    /// first line of the primary span (1-based, 0 = unknown)
    pub line: usize,
}

#[derive(Debug, Default)]
pub struct BuildResult {
    pub ok: bool,
    pub diags: Vec<Diag>,
    pub tail: String,
    pub wall_s: f64,
}

pub struct GenCrate {
    pub dir: PathBuf,
    pub name: String,
}

impl GenCrate {
    /// (Re)creates `/verif/gen/out/<run>/` holding a binary crate called `name`.
    pub fn create(run: &str, name: &str) -> Result<GenCrate, String> {
        let dir = out_root().join(run);
        let src = dir.join("src");
        if src.exists() {
            std::fs::remove_dir_all(&src).map_err(|e| format!("cannot clear {src:?}: {e}"))?;
        }
        std::fs::create_dir_all(&src).map_err(|e| format!("cannot create {src:?}: {e}"))?;
        let repo = repo_root();
        let manifest = format!(
            "[package]\nname = \"{name}\"\nversion = \"0.0.0\"\nedition = \"2024\"\n\n[dependencies]\ndust_dds = {{ path = \"{repo}/dds\" }}\n\n[profile.dev]\ndebug = false\nincremental = false\nopt-level = 0\n\n[workspace]\n"
        );
        std::fs::write(dir.join("Cargo.toml"), manifest).map_err(|e| e.to_string())?;
        // Cargo.lock is not tracked in the repository: a scratch worktree may lack it
        let lock = [format!("{repo}/Cargo.lock"), "/repo/Cargo.lock".to_string()]
            .into_iter()
            .find(|p| std::path::Path::new(p).exists())
            .ok_or_else(|| format!("no Cargo.lock in {repo} or /repo"))?;
        std::fs::copy(&lock, dir.join("Cargo.lock")).map_err(|e| format!("cannot copy {lock}: {e}"))?;
        std::fs::write(src.join("support.rs"), SUPPORT_RS).map_err(|e| e.to_string())?;
        Ok(GenCrate { dir, name: name.to_string() })
    }

    pub fn write(&self, rel: &str, content: &str) {
        let p = self.dir.join(rel);
        if let Some(parent) = p.parent() {
            std::fs::create_dir_all(parent).ok();
        }
        std::fs::write(&p, content).unwrap_or_else(|e| panic!("write {p:?}: {e}"));
    }

    pub fn build(&self) -> BuildResult {
        let t0 = Instant::now();
        let out = Command::new("cargo")
            .args(["build", "--offline", "--message-format=json", "-q"])
            .current_dir(&self.dir)
            .env("CARGO_NET_OFFLINE", "true")
            .env("CARGO_TARGET_DIR", target_dir())
            .env_remove("RUSTFLAGS")
            .stdout(Stdio::piped())
            .stderr(Stdio::piped())
            .output();
        let out = match out {
            Ok(o) => o,
            Err(e) => {
                return BuildResult { ok: false, diags: vec![], tail: format!("cannot run cargo: {e}"), wall_s: 0.0 };
            }
        };
        let stdout = String::from_utf8_lossy(&out.stdout);
        let stderr = String::from_utf8_lossy(&out.stderr);
        let mut diags = vec![];
        for line in stdout.lines() {
            let Ok(v) = serde_json::from_str::<Value>(line) else { continue };
            if v["reason"] != "compiler-message" {
                continue;
            }
            let m = &v["message"];
            if m["level"] != "error" {
                continue;
            }
            let message = m["message"].as_str().unwrap_or("").to_string();
            if message.starts_with("aborting due to") || message.starts_with("could not compile") {
                continue;
            }
            let code = m["code"]["code"].as_str().unwrap_or("").to_string();
            let mut file = String::new();
            let mut snippet = String::new();
            let mut line_no = 0usize;
            if let Some(spans) = m["spans"].as_array() {
                let primary = spans.iter().find(|s| s["is_primary"] == true).or(spans.first());
                if let Some(s) = primary {
                    file = s["file_name"].as_str().unwrap_or("").to_string();
                    line_no = s["line_start"].as_u64().unwrap_or(0) as usize;
                    if let Some(texts) = s["text"].as_array() {
                        for t in texts {
                            let txt = t["text"].as_str().unwrap_or("");
                            let a = t["highlight_start"].as_u64().unwrap_or(1).saturating_sub(1) as usize;
                            let b = t["highlight_end"].as_u64().unwrap_or(1).saturating_sub(1) as usize;
                            let chars: Vec<char> = txt.chars().collect();
                            let b = b.min(chars.len());
                            let a = a.min(b);
                            snippet.extend(&chars[a..b]);
                        }
                    }
                }
            }
            diags.push(Diag { file, code, message, snippet, line: line_no });
        }
        let ok = out.status.success();
        let mut tail: String = stderr.chars().rev().take(3000).collect::<Vec<_>>().into_iter().rev().collect();
        if !ok && diags.is_empty() && tail.is_empty() {
            tail = "cargo build failed without diagnostics".into();
        }
        BuildResult { ok, diags, tail, wall_s: t0.elapsed().as_secs_f64() }
    }

    /// Runs the built binary; returns stdout. A non-zero exit status or a timeout is an error.
    pub fn run(&self, timeout: Duration) -> Result<String, String> {
        let exe = target_dir().join("debug").join(&self.name);
        let mut child = Command::new(&exe)
            .current_dir(&self.dir)
            .env("RUST_BACKTRACE", "0")
            .stdout(Stdio::piped())
            .stderr(Stdio::piped())
            .spawn()
            .map_err(|e| format!("cannot run {exe:?}: {e}"))?;
        let mut so = child.stdout.take().unwrap();
        let reader = std::thread::spawn(move || {
            let mut s = String::new();
            let _ = so.read_to_string(&mut s);
            s
        });
        let mut se = child.stderr.take().unwrap();
        let ereader = std::thread::spawn(move || {
            let mut s = String::new();
            let _ = se.read_to_string(&mut s);
            s
        });
        let t0 = Instant::now();
        let status = loop {
            match child.try_wait() {
                Ok(Some(st)) => break st,
                Ok(None) => {
                    if t0.elapsed() > timeout {
                        let _ = child.kill();
                        let _ = child.wait();
                        return Err(format!("generated program exceeded {timeout:?}"));
                    }
                    std::thread::sleep(Duration::from_millis(20));
                }
                Err(e) => return Err(format!("wait: {e}")),
            }
        };
        let stdout = reader.join().unwrap_or_default();
        let stderr = ereader.join().unwrap_or_default();
        if !status.success() {
            let t: String = stderr.chars().rev().take(1500).collect::<Vec<_>>().into_iter().rev().collect();
            return Err(format!("generated program exited with {status}: {t}"));
        }
        Ok(stdout)
    }
}

/// Groups the error diagnostics of a failed build by generated unit (`src/<prefix><n>.rs`).
/// Returns (per unit diagnostics, diagnostics that could not be attributed).
pub fn attribute(diags: &[Diag], prefix: &str) -> (BTreeMap<usize, Vec<Diag>>, Vec<Diag>) {
    let mut per: BTreeMap<usize, Vec<Diag>> = BTreeMap::new();
    let mut other = vec![];
    for d in diags {
        let unit = d
            .file
            .strip_prefix("src/")
            .and_then(|f| f.strip_prefix(prefix))
            .and_then(|f| f.strip_suffix(".rs"))
            .and_then(|n| n.parse::<usize>().ok());
        match unit {
            Some(n) => per.entry(n).or_default().push(d.clone()),
            None => other.push(d.clone()),
        }
    }
    (per, other)
}

/// Normalised form of a compiler message used to group failures: quoted names and digits removed.
pub fn diag_key(d: &Diag) -> String {
    let mut out = String::new();
    let mut in_tick = false;
    let mut tick = String::new();
    for c in d.message.chars() {
        if c == '`' {
            in_tick = !in_tick;
            if in_tick {
                tick.clear();
            } else if !tick.is_empty() && !tick.chars().any(|x| x.is_alphanumeric() || x == '_') {
                // pure punctuation (`::`, `-`, `=`) is part of what went wrong, names are not
                out.push_str(&format!("`{tick}`"));
            } else {
                out.push_str("`_`");
            }
            continue;
        }
        if in_tick {
            tick.push(c);
            continue;
        }
        if c.is_ascii_digit() {
            if !out.ends_with('N') {
                out.push('N');
            }
        } else {
            out.push(c);
        }
    }
    // "for struct `_`" / "for enum `_`" / "for type `_`" name the same thing
    let mut out = out;
    for w in ["struct ", "enum ", "type ", "union ", "trait ", "value ", "module ", "crate ", "array ", "tuple ", "reference "] {
        out = out.replace(&format!("{w}`_`"), "`_`");
    }
    let out: String = out.chars().take(90).collect();
    if d.code.is_empty() { out } else { format!("{}:{}", d.code, out) }
}

/// Builds the crate; units whose file has errors are reported and their file is replaced by `stub`,
/// until the rest builds. Err = a build problem that cannot be attributed to a generated unit.
pub fn build_excluding(
    krate: &GenCrate,
    prefix: &str,
    stub: &dyn Fn(usize) -> String,
    max_rounds: usize,
) -> Result<(BTreeMap<usize, Vec<Diag>>, f64, usize), String> {
    let mut failed: BTreeMap<usize, Vec<Diag>> = BTreeMap::new();
    let mut wall = 0.0;
    for round in 0..max_rounds {
        let r = krate.build();
        wall += r.wall_s;
        if r.ok {
            return Ok((failed, wall, round + 1));
        }
        let (per, other) = attribute(&r.diags, prefix);
        if per.is_empty() {
            let first = other.first().map(|d| format!("{} [{}] {}", d.file, d.code, d.message)).unwrap_or_default();
            return Err(format!("build failed, not attributable to a generated unit: {first} {}", r.tail));
        }
        for (n, ds) in per {
            krate.write(&format!("src/{prefix}{n}.rs"), &stub(n));
            failed.entry(n).or_insert(ds);
        }
    }
    Err(format!("build still failing after {max_rounds} exclusion rounds"))
}
