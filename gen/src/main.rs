//! E-GEN: generated programs compiled against the repository under test (properties C40, C41).

mod c40;
mod c41;
mod cb;
mod dump;
mod rng;

fn main() {
    let ctx = vcore::Ctx::from_args();
    match ctx.id.as_str() {
        "C40" => c40::run(&ctx),
        "C41" => c41::run(&ctx),
        // one-off warm-up used by /verif/setup.sh: builds dust_dds (dev profile) into the shared
        // target dir of the generated crates so that a quick tier is one incremental build
        "SETUP" => {
            let r = cb::GenCrate::create("_setup", "genout_setup").and_then(|k| {
                k.write(
                    "src/main.rs",
                    "#![allow(warnings)]\nmod support;\nuse dust_dds::infrastructure::type_support::DdsType;\n#[derive(Debug, Clone, PartialEq, DdsType)]\nstruct Warm { #[dust_dds(key)] a: u8 }\nfn main() { support::init(); support::dump_type(0, \"Warm\", &<Warm as dust_dds::xtypes::type_support::Type>::TYPE); }\n",
                );
                let b = k.build();
                if b.ok { Ok(b.wall_s) } else { Err(format!("{:?} {}", b.diags.first(), b.tail)) }
            });
            match r {
                Ok(s) => {
                    println!("gen SETUP: dust_dds built for generated crates in {s:.1}s ({})", cb::target_dir().display());
                    std::process::exit(0)
                }
                Err(e) => {
                    eprintln!("gen SETUP failed: {e}");
                    std::process::exit(2)
                }
            }
        }
        other => {
            eprintln!("engine gen does not serve {other}");
            std::process::exit(2);
        }
    }
}
