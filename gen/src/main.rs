//! E-GEN: generated programs compiled against the repository under test (properties C40, C41).

mod c40;
mod c41;
mod cb;
mod dump;
mod rng;

fn main() {
    let ctx = vcore::Ctx::from_args();
    match ctx.id.as_str() {
        "C40" => c40::run(&ctx),
        "C41" => c41::run(&ctx),
        other => {
            eprintln!("engine gen does not serve {other}");
            std::process::exit(2);
        }
    }
}
