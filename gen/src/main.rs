fn main() {
    eprintln!("engine gen: not built yet");
    std::process::exit(2);
}
