//! Panic capture (silent hook + location) and small helpers shared by the three checks.

use std::cell::RefCell;
use std::panic::{AssertUnwindSafe, catch_unwind};

thread_local! {
    static LAST_PANIC: RefCell<Option<(String, String)>> = const { RefCell::new(None) };
}

/// Replaces the default hook: nothing is printed, (file, message) of the panic is remembered.
pub fn install_silent_panic_hook() {
    std::panic::set_hook(Box::new(|info| {
        let file = info.location().map(|l| l.file().to_string()).unwrap_or_else(|| "?".into());
        let msg = if let Some(s) = info.payload().downcast_ref::<&str>() {
            s.to_string()
        } else if let Some(s) = info.payload().downcast_ref::<String>() {
            s.clone()
        } else {
            "non-string panic payload".to_string()
        };
        LAST_PANIC.with(|p| *p.borrow_mut() = Some((file, msg)));
    }));
}

/// `Err("<file>:<message with digit runs replaced by N>")` when `f` panics.
pub fn guarded<T>(f: impl FnOnce() -> T) -> Result<T, String> {
    LAST_PANIC.with(|p| *p.borrow_mut() = None);
    match catch_unwind(AssertUnwindSafe(f)) {
        Ok(v) => Ok(v),
        Err(_) => {
            let (file, msg) =
                LAST_PANIC.with(|p| p.borrow_mut().take()).unwrap_or_else(|| ("?".into(), "?".into()));
            Err(format!("{}:{}", short_file(&file), normalise_digits(&msg)))
        }
    }
}

/// path relative to the crate's `src/` (no line numbers, no absolute prefix)
pub fn short_file(f: &str) -> String {
    match f.rfind("/src/") {
        Some(i) => f[i + 5..].to_string(),
        None => f.to_string(),
    }
}

pub fn normalise_digits(s: &str) -> String {
    let mut out = String::with_capacity(s.len());
    let mut in_run = false;
    for ch in s.chars() {
        if ch.is_ascii_digit() {
            if !in_run {
                out.push('N');
                in_run = true;
            }
        } else {
            in_run = false;
            out.push(ch);
        }
    }
    out
}

/// Deterministic filler bytes for payloads and parameter values (kept out of the replay files).
/// `seed == 0` gives all zeros (so padding normalisation is also checked on values that end in zeros);
/// any other seed gives bytes that are never zero. Large patterns are memoised (a case asks for the same
/// payload about ten times).
pub fn pattern(seed: u8, len: usize) -> Vec<u8> {
    if seed == 0 {
        return vec![0u8; len];
    }
    if len < 512 {
        return gen_pattern(seed, len);
    }
    CACHE.with(|c| {
        let mut c = c.borrow_mut();
        if let Some((_, v)) = c.iter().find(|(k, _)| *k == (seed, len)) {
            return v.clone();
        }
        let v = gen_pattern(seed, len);
        if c.len() >= 8 {
            c.remove(0);
        }
        c.push(((seed, len), v.clone()));
        v
    })
}

thread_local! {
    static CACHE: RefCell<Vec<((u8, usize), Vec<u8>)>> = const { RefCell::new(Vec::new()) };
}

fn gen_pattern(seed: u8, len: usize) -> Vec<u8> {
    let mut v = Vec::with_capacity(len);
    let mut x = seed as u32 | 0x100;
    for i in 0..len {
        x = x.wrapping_mul(1_103_515_245).wrapping_add(12_345 + i as u32);
        let b = (x >> 16) as u8;
        v.push(if b == 0 { seed } else { b });
    }
    v
}
