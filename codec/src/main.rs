fn main() {
    eprintln!("engine codec: not built yet");
    std::process::exit(2);
}
