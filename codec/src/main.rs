//! E-CODEC engine part: C08 (RTPS message round-trip), C14 (time/duration wire conversion and
//! arithmetic), C38 (UDP transport fragment-size range).
//!
//! `codec <ID> <quick|thorough> [--replay <file>]`

mod c08;
mod c14;
mod c38;
mod refwire;
mod util;

fn main() {
    let ctx = vcore::Ctx::from_args();
    util::install_silent_panic_hook();
    match ctx.id.as_str() {
        "C08" => c08::main(&ctx),
        "C14" => c14::main(&ctx),
        "C38" => c38::main(&ctx),
        other => {
            eprintln!("engine codec does not serve property {other}");
            std::process::exit(2);
        }
    }
}
