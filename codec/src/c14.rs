//! C14: DDS time/duration -> RTPS wire representation -> back is the identity on (sec, nanosec); time and
//! duration arithmetic yields normalised values and is monotone.
//!
//! Conversion chains checked (exactly the `From` impls the library itself uses):
//!   Time    : infrastructure::time::Time -> transport::types::Time            (DataWriter::write_w_timestamp -> CacheChange)
//!             -> rtps_messages::types::Time {seconds, fraction 2^-32 s}       (INFO_TS built by the RTPS writer)
//!             -> [INFO_TS submessage bytes -> RtpsMessageRead]                (sampled)
//!             -> transport::types::Time -> infrastructure::time::Time         (reader: CacheChange -> SampleInfo.source_timestamp)
//!   Duration: infrastructure::time::Duration -> rtps::behavior_types::Duration {seconds, fraction} -> back
//!             infrastructure::time::Duration -> rtps_messages::types::Time -> back (second public pair in time.rs)
//!
//! Signatures: C14:roundtrip:time, C14:roundtrip:duration (nanoseconds off by exactly one), with suffix
//! `:error>1ns` / `:seconds` for anything worse, C14:normalized:<op>, C14:value:<op>, C14:monotone:<op>,
//! C14:inverse:<op>, C14:order:<type>, C14:panic:<file>:<msg>.

use dust_dds::{
    infrastructure::time::{Duration, Time},
    rtps::behavior_types::Duration as RtpsDuration,
    rtps_messages::{
        overall_structure::{RtpsMessageHeader, RtpsMessageRead, RtpsMessageWrite, RtpsSubmessageReadKind},
        submessages::info_timestamp::InfoTimestampSubmessage,
        types::Time as RtpsTime,
    },
    transport::types::{ProtocolVersion, Time as TransportTime},
};
use proptest::prelude::*;
use proptest::sample::select;
use serde::{Deserialize, Serialize};
use serde_json::{Value, json};
use vcore::{Ctx, Failure, Known, Meta, Report, Stats, pt::CaseOutcome};

use crate::util::guarded;

const NS: u32 = 1_000_000_000;

// ------------------------------------------------------------------------------------------------
// conversions under test

#[inline]
fn time_chain(sec: i32, ns: u32) -> (i32, u32) {
    let t = Time::new(sec, ns);
    let tt = TransportTime::from(t);
    let wire = RtpsTime::from(tt);
    let back_t = TransportTime::from(wire);
    let back = Time::from(back_t);
    (back.sec(), back.nanosec())
}

/// the same chain with the RTPS time actually written into and read from an INFO_TS submessage
fn time_chain_via_message(sec: i32, ns: u32) -> Result<(i32, u32), String> {
    let wire = RtpsTime::from(TransportTime::from(Time::new(sec, ns)));
    let sub = InfoTimestampSubmessage::new(false, wire);
    let header = RtpsMessageHeader::new(ProtocolVersion::new(2, 4), [1, 0x14], [7; 12]);
    let msg = RtpsMessageWrite::new(&header, &[&sub]);
    let read = RtpsMessageRead::try_from(msg.buffer()).map_err(|e| format!("decode error {e:?}"))?;
    match read.submessages().first() {
        Some(RtpsSubmessageReadKind::InfoTimestamp(x)) => {
            let back = Time::from(TransportTime::from(x.timestamp()));
            Ok((back.sec(), back.nanosec()))
        }
        _ => Err("INFO_TS not decoded".into()),
    }
}

#[inline]
fn duration_chain(sec: i32, ns: u32) -> (i32, u32) {
    let d = Duration::new(sec, ns);
    let wire = RtpsDuration::from(d);
    let back = Duration::from(wire);
    (back.sec(), back.nanosec())
}

#[inline]
fn duration_time_chain(sec: i32, ns: u32) -> (i32, u32) {
    let d = Duration::new(sec, ns);
    let wire = RtpsTime::from(d);
    let back = Duration::from(wire);
    (back.sec(), back.nanosec())
}

#[derive(Clone, Copy, Debug, PartialEq, Eq, Serialize, Deserialize)]
pub enum Chain {
    Time,
    TimeViaInfoTs,
    Duration,
    DurationViaRtpsTime,
}

impl Chain {
    fn run(self, sec: i32, ns: u32) -> Result<(i32, u32), String> {
        match self {
            Chain::Time => Ok(time_chain(sec, ns)),
            Chain::TimeViaInfoTs => time_chain_via_message(sec, ns),
            Chain::Duration => Ok(duration_chain(sec, ns)),
            Chain::DurationViaRtpsTime => Ok(duration_time_chain(sec, ns)),
        }
    }
    fn sig_base(self) -> &'static str {
        match self {
            Chain::Time | Chain::TimeViaInfoTs => "C14:roundtrip:time",
            Chain::Duration | Chain::DurationViaRtpsTime => "C14:roundtrip:duration",
        }
    }
    fn describe(self) -> &'static str {
        match self {
            Chain::Time => "Time -> transport Time -> RTPS Time(seconds, fraction) -> transport Time -> Time",
            Chain::TimeViaInfoTs => "Time -> ... -> INFO_TS bytes -> RtpsMessageRead -> ... -> Time",
            Chain::Duration => "Duration -> rtps::behavior_types::Duration(seconds, fraction) -> Duration",
            Chain::DurationViaRtpsTime => "Duration -> rtps_messages::types::Time(seconds, fraction) -> Duration",
        }
    }
}

/// verdict for one value: None = exact
fn judge(chain: Chain, sec: i32, ns: u32, got: (i32, u32)) -> Option<(String, String)> {
    if got == (sec, ns) {
        return None;
    }
    let base = chain.sig_base();
    let sig = if got.0 != sec {
        format!("{base}:seconds")
    } else if (got.1 as i64 - ns as i64).abs() == 1 {
        base.to_string()
    } else {
        format!("{base}:error>1ns")
    };
    Some((
        sig,
        format!(
            "{}: ({} s, {} ns) comes back as ({} s, {} ns)",
            chain.describe(),
            sec,
            ns,
            got.0,
            got.1
        ),
    ))
}

/// Accumulates round-trip results of enumerations (where most values may fail on the unchanged tree):
/// counts per mismatch class and keeps the first (smallest, enumerations ascend) failing value per class.
#[derive(Default)]
struct Tally {
    evaluated: u64,
    nonzero_ns: u64,
    /// per chain (4) x mismatch class (off-by-one, more than 1 ns, seconds): count and first failing input/output
    mism: [[(u64, Option<(i32, u32, i32, u32)>); 3]; 4],
    other: Vec<(String, Value, String)>,
    /// Some: values may repeat (random draws), distinctness is tracked by hash instead of by construction
    seen: Option<std::collections::HashSet<u64>>,
}

fn chain_index(c: Chain) -> usize {
    match c {
        Chain::Time => 0,
        Chain::TimeViaInfoTs => 1,
        Chain::Duration => 2,
        Chain::DurationViaRtpsTime => 3,
    }
}
const CHAINS: [Chain; 4] = [Chain::Time, Chain::TimeViaInfoTs, Chain::Duration, Chain::DurationViaRtpsTime];

impl Tally {
    #[inline]
    fn check(&mut self, chain: Chain, sec: i32, ns: u32) {
        self.evaluated += 1;
        match &mut self.seen {
            None => self.nonzero_ns += (ns != 0) as u64,
            Some(set) => {
                if ns != 0 {
                    set.insert(vcore::mix(((sec as u32 as u64) << 32) | ns as u64, "c14-rt", chain_index(chain) as u64));
                }
            }
        }
        let got = match chain {
            // hot paths without Result
            Chain::Time => time_chain(sec, ns),
            Chain::Duration => duration_chain(sec, ns),
            Chain::DurationViaRtpsTime => duration_time_chain(sec, ns),
            Chain::TimeViaInfoTs => match time_chain_via_message(sec, ns) {
                Ok(g) => g,
                Err(e) => {
                    if self.other.len() < 4 {
                        self.other.push((
                        "C14:roundtrip:time:message".into(),
                        json!({"op": "roundtrip", "chain": chain, "sec": sec, "nanosec": ns}),
                            e,
                        ));
                    }
                    return;
                }
            },
        };
        if got != (sec, ns) {
            let class = if got.0 != sec {
                2
            } else if got.1.abs_diff(ns) == 1 {
                0
            } else {
                1
            };
            let e = &mut self.mism[chain_index(chain)][class];
            e.0 += 1;
            if e.1.is_none() {
                e.1 = Some((sec, ns, got.0, got.1));
            }
        }
    }
    fn flush(self, stats: &mut Stats, known: &Known, failures: &mut Vec<Failure>, label: &str) {
        stats.evaluations += self.evaluated;
        stats.nontrivial_by_construction += self.nonzero_ns;
        if let Some(set) = self.seen {
            stats.nontrivial.extend(set);
        }
        stats.class_n(&format!("roundtrip_{label}"), self.evaluated);
        let mut found: Vec<(String, u64, Value, String)> = vec![];
        for (ci, chain) in CHAINS.iter().enumerate() {
            for class in 0..3 {
                let (n, first) = self.mism[ci][class];
                if let Some((sec, ns, gs, gn)) = first {
                    let (sig, what) = judge(*chain, sec, ns, (gs, gn)).expect("mismatch");
                    found.push((sig, n, json!({"op": "roundtrip", "chain": chain, "sec": sec, "nanosec": ns}), what));
                }
            }
        }
        for (sig, case, what) in self.other {
            found.push((sig, 1, case, what));
        }
        for (sig, n, case, what) in found {
            stats.class_n(&format!("roundtrip_{label}_mismatch"), n);
            if known.matches(&sig) {
                *stats.excluded_known.entry(sig).or_insert(0) += n;
            } else {
                failures.push(Failure {
                    signature: sig,
                    what: format!("{what} ({n} of the values enumerated in '{label}' fail this way)"),
                    case,
                    shrunk_from: None,
                    shrunk_to: None,
                });
            }
        }
    }
}

const BOUNDARY_SECS: [i32; 15] = [
    0,
    1,
    2,
    -1,
    -2,
    59,
    86_400,
    1_600_000_000,
    (1 << 30) - 1,
    1 << 30,
    i32::MAX - 1,
    i32::MAX,
    i32::MIN,
    i32::MIN + 1,
    -86_400,
];

/// every ns with ns mod 2^k in {0, 1, 2^k - 1} near the power-of-two and decimal boundaries
fn boundary_ns() -> Vec<u32> {
    let mut v = vec![];
    for k in 0..30 {
        let p = 1u32 << k;
        for d in [p.wrapping_sub(2), p - 1, p, p + 1, p + 2] {
            if d < NS {
                v.push(d);
            }
        }
    }
    let mut p = 1u32;
    for _ in 0..10 {
        for d in [p.wrapping_sub(1), p, p + 1, p / 2, p / 2 + 1, p / 4, 3 * (p / 4)] {
            if d < NS {
                v.push(d);
            }
        }
        p = p.saturating_mul(10);
    }
    for d in [NS - 1, NS - 2, NS - 3, 500_000_000, 499_999_999, 500_000_001, 250_000_000, 750_000_000, 200, 233, 232] {
        v.push(d);
    }
    v.sort_unstable();
    v.dedup();
    v
}

// ------------------------------------------------------------------------------------------------
// arithmetic

#[derive(Clone, Debug, Serialize, Deserialize)]
pub struct Arith {
    pub a: (i32, u32),
    pub b: (i32, u32),
    pub c: (i32, u32),
    pub d: (i32, u32),
}

fn total(x: (i32, u32)) -> i128 {
    x.0 as i128 * NS as i128 + x.1 as i128
}
const MIN_TOTAL: i128 = i32::MIN as i128 * NS as i128;
const MAX_TOTAL: i128 = i32::MAX as i128 * NS as i128 + (NS as i128 - 1);
fn in_range(t: i128) -> bool {
    (MIN_TOTAL..=MAX_TOTAL).contains(&t)
}
fn fits_i32(v: i64) -> bool {
    (i32::MIN as i64..=i32::MAX as i64).contains(&v)
}
/// x + y has a representable exact result and the seconds sum itself does not leave i32 (no saturation anywhere)
fn add_ok(x: (i32, u32), y: (i32, u32)) -> bool {
    in_range(total(x) + total(y)) && fits_i32(x.0 as i64 + y.0 as i64)
}
fn sub_ok(x: (i32, u32), y: (i32, u32)) -> bool {
    in_range(total(x) - total(y)) && fits_i32(x.0 as i64 - y.0 as i64)
}
fn dur(x: (i32, u32)) -> Duration {
    Duration::new(x.0, x.1)
}
fn tim(x: (i32, u32)) -> Time {
    Time::new(x.0, x.1)
}
fn dt(d: Duration) -> (i32, u32) {
    (d.sec(), d.nanosec())
}
fn tt(t: Time) -> (i32, u32) {
    (t.sec(), t.nanosec())
}

fn secs() -> BoxedStrategy<i32> {
    prop_oneof![
        4 => -1000i32..1000,
        2 => select(BOUNDARY_SECS.to_vec()),
        2 => any::<i32>().prop_map(|v| v / 2),
        1 => any::<i32>(),
        1 => (select(vec![i32::MAX, i32::MIN, 0]), -3i32..=3).prop_map(|(a, d)| a.saturating_add(d)),
    ]
    .boxed()
}

fn nsecs() -> BoxedStrategy<u32> {
    prop_oneof![
        3 => 0u32..NS,
        2 => select(vec![0u32, 1, 2, NS - 1, NS - 2, NS / 2, NS / 2 - 1, NS / 2 + 1, 999_999_000, 1_000]),
        1 => (0u32..1000).prop_map(|m| m * 1_000_000),
    ]
    .boxed()
}

fn val() -> BoxedStrategy<(i32, u32)> {
    (secs(), nsecs()).boxed()
}

pub fn arith_strategy() -> BoxedStrategy<Arith> {
    (val(), val(), val(), val(), 0u8..8)
        .prop_map(|(a, b, c, d, tweak)| {
            // make near-equal operands frequent: b differs from a by one ns / equals a
            let b = match tweak {
                0 => a,
                1 => {
                    if a.1 + 1 < NS { (a.0, a.1 + 1) } else { (a.0.saturating_add(1), 0) }
                }
                2 => (a.0, b.1),
                _ => b,
            };
            Arith { a, b, c, d }
        })
        .boxed()
}

struct ArithEval {
    failures: Vec<(String, String)>,
    checked: u32,
    skipped_out_of_range: u32,
    carry: bool,
    negative: bool,
}

fn norm_check(op: &str, r: (i32, u32), f: &mut Vec<(String, String)>, ctx: &str) {
    if r.1 >= NS {
        f.push((format!("C14:normalized:{op}"), format!("{ctx} = ({} s, {} ns): nanosec >= 10^9", r.0, r.1)));
    }
}

fn evaluate_arith(x: &Arith) -> ArithEval {
    let mut f: Vec<(String, String)> = vec![];
    let mut checked = 0u32;
    let mut skipped = 0u32;
    let (a, b, c, d) = (x.a, x.b, x.c, x.d);
    let (lo, hi) = if total(a) <= total(b) { (a, b) } else { (b, a) };
    let carry = a.1 as u64 + d.1 as u64 >= NS as u64 || a.1 < d.1;
    let negative = a.0 < 0 || b.0 < 0 || d.0 < 0 || c.0 < 0;

    macro_rules! op {
        ($name:expr, $e:expr) => {
            match guarded(|| $e) {
                Ok(v) => Some(v),
                Err(p) => {
                    f.push((format!("C14:panic:{p}"), format!("{} panicked on in-range operands {:?}: {p}", $name, x)));
                    None
                }
            }
        };
    }

    // ---- ordering agrees with the represented instant / interval
    for (ty, l, r) in [("duration", a, b), ("duration", a, d), ("time", a, b), ("time", c, d)] {
        let want = total(l).cmp(&total(r));
        let got = if ty == "duration" { dur(l).cmp(&dur(r)) } else { tim(l).cmp(&tim(r)) };
        checked += 1;
        if want != got {
            f.push((format!("C14:order:{ty}"), format!("{l:?} vs {r:?}: compares {got:?}, values order {want:?}")));
        }
    }

    // ---- Duration + Duration
    let sums_ok = add_ok(lo, d) && add_ok(hi, d);
    if sums_ok {
        if let (Some(s1), Some(s2)) = (op!("Duration + Duration", dt(dur(lo) + dur(d))), op!("Duration + Duration", dt(dur(hi) + dur(d)))) {
            checked += 4;
            norm_check("duration+duration", s1, &mut f, &format!("{lo:?} + {d:?}"));
            norm_check("duration+duration", s2, &mut f, &format!("{hi:?} + {d:?}"));
            if total(s1) != total(lo) + total(d) {
                f.push(("C14:value:duration+duration".into(), format!("{lo:?} + {d:?} = {s1:?}")));
            }
            if dur(s1) > dur(s2) {
                f.push(("C14:monotone:duration+duration".into(), format!("{lo:?} <= {hi:?} but {lo:?} + {d:?} = {s1:?} > {hi:?} + {d:?} = {s2:?}")));
            }
            // (a + d) - d == a
            if let Some(back) = op!("Duration - Duration", dt(dur(s1) - dur(d))).filter(|_| sub_ok(s1, d)) {
                norm_check("duration-duration", back, &mut f, &format!("{s1:?} - {d:?}"));
                if back != lo {
                    f.push(("C14:inverse:duration+duration".into(), format!("({lo:?} + {d:?}) - {d:?} = {back:?}")));
                }
            }
        }
    } else {
        skipped += 1;
    }

    // ---- Duration - Duration
    let diffs_ok = sub_ok(lo, d) && sub_ok(hi, d);
    if diffs_ok {
        if let (Some(s1), Some(s2)) = (op!("Duration - Duration", dt(dur(lo) - dur(d))), op!("Duration - Duration", dt(dur(hi) - dur(d)))) {
            checked += 4;
            norm_check("duration-duration", s1, &mut f, &format!("{lo:?} - {d:?}"));
            norm_check("duration-duration", s2, &mut f, &format!("{hi:?} - {d:?}"));
            if total(s1) != total(lo) - total(d) {
                f.push(("C14:value:duration-duration".into(), format!("{lo:?} - {d:?} = {s1:?}")));
            }
            if dur(s1) > dur(s2) {
                f.push(("C14:monotone:duration-duration".into(), format!("{lo:?} <= {hi:?} but {lo:?} - {d:?} = {s1:?} > {hi:?} - {d:?} = {s2:?}")));
            }
            if let Some(back) = op!("Duration + Duration", dt(dur(s1) + dur(d))).filter(|_| add_ok(s1, d)) {
                if back != lo {
                    f.push(("C14:inverse:duration-duration".into(), format!("({lo:?} - {d:?}) + {d:?} = {back:?}")));
                }
            }
        }
    } else {
        skipped += 1;
    }
    // antitone in the subtrahend: lo <= hi  =>  c - lo >= c - hi
    if sub_ok(c, lo) && sub_ok(c, hi) {
        if let (Some(s1), Some(s2)) = (op!("Duration - Duration", dt(dur(c) - dur(lo))), op!("Duration - Duration", dt(dur(c) - dur(hi)))) {
            checked += 1;
            if dur(s1) < dur(s2) {
                f.push(("C14:monotone:duration-duration".into(), format!("{lo:?} <= {hi:?} but {c:?} - {lo:?} = {s1:?} < {c:?} - {hi:?} = {s2:?}")));
            }
        }
    }

    // ---- Time + Duration (and +=)
    if sums_ok {
        if let (Some(s1), Some(s2)) = (op!("Time + Duration", tt(tim(lo) + dur(d))), op!("Time + Duration", tt(tim(hi) + dur(d)))) {
            checked += 5;
            norm_check("time+duration", s1, &mut f, &format!("{lo:?} + {d:?}"));
            norm_check("time+duration", s2, &mut f, &format!("{hi:?} + {d:?}"));
            if total(s1) != total(lo) + total(d) {
                f.push(("C14:value:time+duration".into(), format!("Time{lo:?} + Duration{d:?} = {s1:?}")));
            }
            if tim(s1) > tim(s2) {
                f.push(("C14:monotone:time+duration".into(), format!("{lo:?} <= {hi:?} but {lo:?} + {d:?} = {s1:?} > {hi:?} + {d:?} = {s2:?}")));
            }
            if let Some(s3) = op!("Time += Duration", {
                let mut t = tim(lo);
                t += dur(d);
                tt(t)
            }) {
                if s3 != s1 {
                    f.push(("C14:value:time+=duration".into(), format!("{lo:?} += {d:?} gives {s3:?}, + gives {s1:?}")));
                }
            }
            // (t + d) - t == d
            if let Some(back) = op!("Time - Time", dt(tim(s1) - tim(lo))).filter(|_| sub_ok(s1, lo)) {
                norm_check("time-time", back, &mut f, &format!("{s1:?} - {lo:?}"));
                if back != d {
                    f.push(("C14:inverse:time+duration".into(), format!("(Time{lo:?} + Duration{d:?}) - Time{lo:?} = {back:?}")));
                }
            }
        }
    }
    // monotone in the duration: lo <= hi => c + lo <= c + hi
    if add_ok(c, lo) && add_ok(c, hi) {
        if let (Some(s1), Some(s2)) = (op!("Time + Duration", tt(tim(c) + dur(lo))), op!("Time + Duration", tt(tim(c) + dur(hi)))) {
            checked += 1;
            if tim(s1) > tim(s2) {
                f.push(("C14:monotone:time+duration".into(), format!("{lo:?} <= {hi:?} but {c:?} + {lo:?} = {s1:?} > {c:?} + {hi:?} = {s2:?}")));
            }
        }
    }

    // ---- Time - Time
    if sub_ok(lo, c) && sub_ok(hi, c) {
        if let (Some(s1), Some(s2)) = (op!("Time - Time", dt(tim(lo) - tim(c))), op!("Time - Time", dt(tim(hi) - tim(c)))) {
            checked += 4;
            norm_check("time-time", s1, &mut f, &format!("{lo:?} - {c:?}"));
            norm_check("time-time", s2, &mut f, &format!("{hi:?} - {c:?}"));
            if total(s1) != total(lo) - total(c) {
                f.push(("C14:value:time-time".into(), format!("Time{lo:?} - Time{c:?} = {s1:?}")));
            }
            if dur(s1) > dur(s2) {
                f.push(("C14:monotone:time-time".into(), format!("{lo:?} <= {hi:?} but {lo:?} - {c:?} = {s1:?} > {hi:?} - {c:?} = {s2:?}")));
            }
            // c + (lo - c) == lo
            if let Some(back) = op!("Time + Duration", tt(tim(c) + dur(s1))).filter(|_| add_ok(c, s1)) {
                if back != lo {
                    f.push(("C14:inverse:time-time".into(), format!("Time{c:?} + (Time{lo:?} - Time{c:?}) = {back:?}")));
                }
            }
        }
    } else {
        skipped += 1;
    }
    ArithEval { failures: f, checked, skipped_out_of_range: skipped, carry, negative }
}

fn arith_outcome(x: &Arith, known: &Known) -> CaseOutcome {
    let js = serde_json::to_value(x).unwrap();
    let key = vcore::hash_json(&js);
    let ev = evaluate_arith(x);
    let nontrivial = ev.checked > 4 && (ev.carry || ev.negative);
    let mut out = CaseOutcome::pass(key, nontrivial);
    if ev.carry {
        out.classes.push("arith_carry_or_borrow".into());
    }
    if ev.negative {
        out.classes.push("arith_negative_seconds".into());
    }
    if ev.skipped_out_of_range > 0 {
        out.classes.push("arith_some_op_out_of_range_skipped".into());
    }
    if x.a == x.b {
        out.classes.push("arith_equal_operands".into());
    }
    out.classes.push("arith_case".into());
    if nontrivial {
        out.sample = Some(json!({"op": "arith", "case": js, "laws_checked": ev.checked}));
    }
    let pick = ev.failures.iter().find(|(s, _)| !known.matches(s)).or(ev.failures.first());
    if let Some((s, w)) = pick {
        out = out.fail(s.clone(), w.clone());
    }
    out
}

// ------------------------------------------------------------------------------------------------

const RULE: &str = "round-trip part: the enumerated (chain, seconds, nanoseconds) triples are distinct by construction, randomly drawn ones are counted by hash; non-trivial = nanoseconds != 0 (exhaustive: every ns in [0,10^9) for the Time chain at sec=1_700_000_000 and for the Duration chain at sec=13, see `exhaustive`/`ns_enumeration`); arithmetic part: generated operand quadruples (a,b,c,d) with boundary seconds/nanoseconds, all laws evaluated where the exact result is representable; non-trivial = a nanosecond carry/borrow occurs or an operand has negative seconds; distinct = hash of the case encoding";

pub fn main(ctx: &Ctx) -> ! {
    let thorough = ctx.tier == vcore::Tier::Thorough;
    let meta = Meta {
        rule: RULE,
        assumptions: &[
            "valid values: nanosec < 10^9 (the only values Time::new / Duration::new can produce); DURATION_INFINITE and TIME_INVALID sentinels are not convertible values and are excluded",
            "arithmetic laws are only demanded where the exact result lies in [i32::MIN s, i32::MAX s + 999999999 ns] (no saturation)",
            "Time/Duration ordering is compared with the order of sec*10^9+nanosec",
        ],
        nontrivial_floor: 1_000_000,
    };
    let known = Known::load(&ctx.id);

    if let Some(path) = &ctx.replay {
        let v = vcore::load_replay(path);
        let mut report = Report::default();
        report.stats.evaluations = 1;
        if v.get("op").and_then(|o| o.as_str()) == Some("roundtrip") {
            let chain: Chain = serde_json::from_value(v["chain"].clone()).expect("chain");
            let sec = v["sec"].as_i64().expect("sec") as i32;
            let ns = v["nanosec"].as_u64().expect("nanosec") as u32;
            match guarded(|| chain.run(sec, ns)) {
                Ok(Ok(got)) => {
                    println!("replay C14: {} : ({sec} s, {ns} ns) -> ({} s, {} ns)", chain.describe(), got.0, got.1);
                    if let Some((signature, what)) = judge(chain, sec, ns, got) {
                        println!("  oracle: {signature}: {what}");
                        report.failures.push(Failure { signature, what, case: v.clone(), shrunk_from: None, shrunk_to: None });
                    } else {
                        println!("  oracle: exact");
                    }
                }
                Ok(Err(e)) => report.failures.push(Failure { signature: "C14:roundtrip:time:message".into(), what: e, case: v.clone(), shrunk_from: None, shrunk_to: None }),
                Err(p) => report.failures.push(Failure { signature: format!("C14:panic:{p}"), what: p, case: v.clone(), shrunk_from: None, shrunk_to: None }),
            }
        } else {
            let x: Arith = serde_json::from_value(v.clone()).unwrap_or_else(|e| {
                eprintln!("replay file does not hold a C14 case: {e}");
                std::process::exit(2)
            });
            let ev = evaluate_arith(&x);
            println!("replay C14 arithmetic {:?}: {} laws checked", x, ev.checked);
            for (s, w) in &ev.failures {
                println!("  oracle: {s}: {w}");
            }
            if let Some((s, w)) = ev.failures.first() {
                report.failures.push(Failure { signature: s.clone(), what: w.clone(), case: v, shrunk_from: None, shrunk_to: None });
            }
        }
        vcore::finish(ctx, meta, report);
    }

    // work definition (fixed)
    let shards = ctx.pick(4, 8);
    let arith_cases: u64 = ctx.pick(600_000, 40_000_000);
    let random_rt: u64 = ctx.pick(200_000, 20_000_000);
    let via_message: u64 = ctx.pick(100_000, 2_000_000);

    let mut report = vcore::run_sharded(ctx, shards, |ctx| {
        let mut report = Report::default();
        let k = ctx.shard_index();
        let n = ctx.shard_count();

        // (1) exhaustive nanosecond enumeration, split over the shards
        let lo = (NS as u64 * k / n) as u32;
        let hi = (NS as u64 * (k + 1) / n) as u32;
        let mut t = Tally::default();
        for ns in lo..hi {
            t.check(Chain::Time, 1_700_000_000, ns);
        }
        t.flush(&mut report.stats, &known, &mut report.failures, "time_exhaustive_ns");
        let mut t = Tally::default();
        for ns in lo..hi {
            t.check(Chain::Duration, 13, ns);
        }
        t.flush(&mut report.stats, &known, &mut report.failures, "duration_exhaustive_ns");

        // (2) boundary seconds x boundary nanoseconds, all four chains (shard 0 only; small)
        if k == 0 {
            let bns = boundary_ns();
            let mut t = Tally::default();
            for chain in [Chain::Time, Chain::TimeViaInfoTs, Chain::Duration, Chain::DurationViaRtpsTime] {
                for sec in BOUNDARY_SECS {
                    for ns in &bns {
                        t.check(chain, sec, *ns);
                    }
                }
            }
            t.flush(&mut report.stats, &known, &mut report.failures, "boundary_sec_x_boundary_ns");
            // thorough: the alternative Duration chain and a strided sweep at extreme seconds
            let stride = if thorough { 7 } else { 997 };
            let mut t = Tally::default();
            for sec in [i32::MAX, i32::MIN, -1, 0] {
                let mut ns = (sec as u32) % stride;
                while ns < NS {
                    if bns.binary_search(&ns).is_ok() {
                        // already evaluated in the boundary product above
                        ns += stride;
                        continue;
                    }
                    t.check(Chain::Time, sec, ns);
                    t.check(Chain::Duration, sec, ns);
                    t.check(Chain::DurationViaRtpsTime, sec, ns);
                    ns += stride;
                }
            }
            t.flush(&mut report.stats, &known, &mut report.failures, "extreme_sec_strided_ns");
        }

        // (3) random (sec, ns), incl. through real INFO_TS bytes
        let mut runner = vcore::pt::runner(0, ctx.rng_seed("roundtrip-random"), 0);
        let strat = (any::<i32>(), 0u32..NS);
        let mut t = Tally { seen: Some(Default::default()), ..Default::default() };
        for _ in 0..ctx.share(random_rt) {
            let (sec, ns) = vcore::pt::draw(&mut runner, &strat);
            t.check(Chain::Time, sec, ns);
            t.check(Chain::Duration, sec, ns);
        }
        t.flush(&mut report.stats, &known, &mut report.failures, "random");
        let mut t = Tally { seen: Some(Default::default()), ..Default::default() };
        for _ in 0..ctx.share(via_message) {
            let (sec, ns) = vcore::pt::draw(&mut runner, &strat);
            t.check(Chain::TimeViaInfoTs, sec, ns);
        }
        t.flush(&mut report.stats, &known, &mut report.failures, "time_via_info_ts_bytes");

        // (4) arithmetic laws
        let strat = arith_strategy();
        if let Some(f) = vcore::pt::run_cases(
            ctx.share(arith_cases) as u32,
            ctx.rng_seed("arith"),
            2_000,
            &strat,
            &mut report.stats,
            &known,
            |x| arith_outcome(x, &known),
            |x| serde_json::to_value(x).unwrap(),
        ) {
            report.failures.push(f);
        }
        report
    });
    report.stats.extra.insert("exhaustive".into(), json!(true));
    report.stats.extra.insert(
        "ns_enumeration".into(),
        json!({"range": "every nanosec in 0..1_000_000_000", "chains": [{"chain": "Time", "sec": 1_700_000_000}, {"chain": "Duration", "sec": 13}], "values": 2u64 * NS as u64}),
    );
    vcore::finish(ctx, meta, report)
}
