//! C08: every RTPS message dust-dds builds decodes back to the same header and submessages, every
//! octetsToNextHeader matches the encoded content, both endiannesses decode.
//!
//! Sub-oracles (signature prefix):
//!   C08:panic:<file>:<msg>            building / encoding / decoding panicked
//!   C08:length-field:<kind>[:over-64k] octetsToNextHeader differs from the body size computed by the independent
//!                                      calculator (R-RTPS-WIRE); `over-64k` = body > 65535 as last submessage, where
//!                                      RTPS demands the value 0
//!   C08:encode:<kind>:<field>         the independent reader (vcore::wire) sees a different value in dust-dds' bytes
//!   C08:roundtrip:<kind>:<field>      dust-dds' own decode of its own bytes differs from the input
//!   C08:big-endian:<kind>:<field>     dust-dds decodes the harness' big-endian encoding of the same message differently
//!   C08:little-endian:<kind>:<field>  same for the harness' little-endian encoding (covers octetsToNextHeader = 0)

use std::collections::BTreeSet;

use dust_dds::{
    rtps_messages::{
        overall_structure::{
            RtpsMessageHeader, RtpsMessageRead, RtpsMessageWrite, RtpsSubmessageReadKind, Submessage,
        },
        submessage_elements::{
            Data, FragmentNumberSet, LocatorList, Parameter, ParameterList, SequenceNumberSet,
            SerializedDataFragment,
        },
        submessages::{
            ack_nack::AckNackSubmessage, data::DataSubmessage, data_frag::DataFragSubmessage,
            gap::GapSubmessage, heartbeat::HeartbeatSubmessage, heartbeat_frag::HeartbeatFragSubmessage,
            info_destination::InfoDestinationSubmessage, info_reply::InfoReplySubmessage,
            info_source::InfoSourceSubmessage, info_timestamp::InfoTimestampSubmessage,
            nack_frag::NackFragSubmessage, pad::PadSubmessage,
        },
        types::Time as RtpsTime,
    },
    transport::types::{EntityId, Locator, ProtocolVersion},
};
use proptest::prelude::*;
use proptest::sample::select;
use serde_json::json;
use vcore::{Ctx, Failure, Known, Meta, Report, pt::CaseOutcome, wire};

use crate::{
    refwire::{self, Blob, Eid, Loc, MsgM, Par, SubM, min_num_bits, norm_offs},
    util::{guarded, pattern},
};

const MAX_PAYLOAD: u32 = 70_000;
const MAX_PAR_LEN: u16 = 32_764;

// ------------------------------------------------------------------------------------------------
// generator

fn sn() -> BoxedStrategy<i64> {
    prop_oneof![
        4 => 1i64..2000,
        3 => (select(vec![1i64, 1 << 31, 1 << 32, i64::MAX]), -3i64..=3).prop_map(|(a, d)| a.saturating_add(d)),
        2 => (select(vec![1i64 << 31, 1 << 32, i64::MAX]), 0i64..300).prop_map(|(a, d)| a - d),
        2 => any::<i64>().prop_map(|v| v & i64::MAX),
        1 => select(vec![0i64, -1, -(1i64 << 32), i64::MIN, -(1i64 << 31)]),
    ]
    .boxed()
}

fn frag_num() -> BoxedStrategy<u32> {
    prop_oneof![
        4 => 1u32..100,
        3 => select(vec![1u32, 2, 255, 256, 257, 65_535, 65_536, 65_537, (1 << 31) - 1, 1 << 31, u32::MAX - 256, u32::MAX - 255, u32::MAX - 1, u32::MAX]),
        1 => any::<u32>(),
    ]
    .boxed()
}

fn eid() -> BoxedStrategy<Eid> {
    prop_oneof![
        2 => any::<[u8; 4]>(),
        2 => (any::<[u8; 3]>(), select(vec![0u8, 0x02, 0x03, 0x04, 0x07, 0xc2, 0xc7, 0xc1])).prop_map(|(k, e)| [k[0], k[1], k[2], e]),
        1 => Just([0u8; 4]),
    ]
    .boxed()
}

fn offs() -> BoxedStrategy<Vec<u8>> {
    let edge = vec![0u8, 1, 30, 31, 32, 33, 63, 64, 127, 128, 223, 224, 254, 255];
    prop_oneof![
        2 => Just(vec![]),
        3 => select(edge.clone()).prop_map(|o| vec![o]),
        3 => prop::collection::vec(any::<u8>(), 1..12),
        1 => any::<u8>().prop_map(|n| (0..=n).collect::<Vec<u8>>()),
        1 => prop::collection::vec(select(edge), 1..5),
    ]
    .boxed()
}

fn count() -> BoxedStrategy<i32> {
    prop_oneof![2 => any::<i32>(), 2 => 0i32..1000, 1 => select(vec![0i32, 1, -1, i32::MAX, i32::MIN, i32::MAX - 1])].boxed()
}

fn par() -> BoxedStrategy<Par> {
    let pid = prop_oneof![
        2 => select(vec![0x0070i16, 0x0071, 0x0002, 0x0005, 0x0052, 0x3fff, 0x4000, 0x7fff, -0x8000, -1]),
        1 => any::<i16>(),
    ]
    .prop_map(|p| if p == 0 || p == 1 { 0x0070 } else { p });
    let len = prop_oneof![
        5 => 0u16..=24,
        2 => 0u16..400,
        1 => select(vec![4u16, 16, 1021, 1023, 32_761, 32_762, 32_763, 32_764]),
    ];
    (pid, len, any::<u8>()).prop_map(|(pid, len, seed)| Par { pid, len: len.min(MAX_PAR_LEN), seed }).boxed()
}

fn qos() -> BoxedStrategy<Vec<Par>> {
    prop::collection::vec(par(), 0..=5).boxed()
}

fn data_len() -> BoxedStrategy<u32> {
    prop_oneof![
        10 => 0u32..64,
        6 => 0u32..3000,
        2 => 65_400u32..65_600,
        2 => select(vec![65_503u32, 65_504, 65_515, 65_516, 65_519, 65_520, 65_531, 65_532, 65_535, 65_536]),
        1 => 65_536u32..=MAX_PAYLOAD,
    ]
    .boxed()
}

fn sub() -> BoxedStrategy<SubM> {
    let data = (
        (any::<bool>(), 0u8..4, any::<bool>()),
        eid(),
        eid(),
        sn(),
        qos(),
        (data_len(), any::<u8>()),
    )
        .prop_map(|((q, dk, n), reader, writer, sn, qos, (len, seed))| SubM::Data {
            q,
            // 0: neither, 1/2: D, 3: K
            d: dk == 1 || dk == 2,
            k: dk == 3,
            n: n && dk != 0,
            reader,
            writer,
            sn,
            qos,
            payload: Blob { len, seed },
        });
    let frag_size = prop_oneof![
        3 => 1u16..=64,
        3 => select(vec![8u16, 255, 256, 1344, 32_767, 32_768, 65_000, 65_503, 65_504, 65_534, 65_535]),
        2 => 1u16..=u16::MAX,
    ];
    let frag_len = prop_oneof![3 => Just(u32::MAX), 2 => 1u32..64, 1 => 1u32..MAX_PAYLOAD];
    let data_frag = (
        (any::<bool>(), any::<bool>()),
        eid(),
        eid(),
        sn(),
        (frag_num(), prop_oneof![4 => Just(1u16), 1 => 2u16..=4], frag_size),
        (frag_len, any::<u8>(), 0u16..40, any::<u32>()),
        qos(),
    )
        .prop_map(|((q, k), reader, writer, sn, (frag_start, frags, frag_size), (len, seed, lead, extra), qos)| {
            SubM::DataFrag {
                q,
                k,
                n: false,
                reader,
                writer,
                sn,
                frag_start,
                frags,
                frag_size,
                // finalised by `normalise`
                data_size: extra,
                qos,
                payload: Blob { len, seed },
                lead,
            }
        });
    let gap = (eid(), eid(), sn(), sn(), offs())
        .prop_map(|(reader, writer, start, base, offs)| SubM::Gap { reader, writer, start, base, offs });
    let acknack = (any::<bool>(), eid(), eid(), sn(), offs(), count())
        .prop_map(|(fin, reader, writer, base, offs, count)| SubM::AckNack { fin, reader, writer, base, offs, count });
    let nackfrag = (eid(), eid(), sn(), frag_num(), offs(), count())
        .prop_map(|(reader, writer, sn, base, offs, count)| SubM::NackFrag { reader, writer, sn, base, offs, count });
    let hb = (any::<bool>(), any::<bool>(), eid(), eid(), sn(), sn(), count()).prop_map(
        |(fin, live, reader, writer, first, last, count)| SubM::Heartbeat { fin, live, reader, writer, first, last, count },
    );
    let hbfrag = (eid(), eid(), sn(), frag_num(), count())
        .prop_map(|(reader, writer, sn, last_frag, count)| SubM::HeartbeatFrag { reader, writer, sn, last_frag, count });
    let u32b = || {
        prop_oneof![
            2 => any::<u32>(),
            1 => select(vec![0u32, 1, 0x7fff_ffff, 0x8000_0000, 0xffff_fffe, 0xffff_ffff]),
        ]
    };
    let info_ts = (prop::bool::weighted(0.2), u32b(), u32b())
        .prop_map(|(invalidate, sec, frac)| SubM::InfoTs { invalidate, sec, frac });
    let info_dst = any::<[u8; 12]>().prop_map(|prefix| SubM::InfoDst { prefix });
    let info_src = (any::<(u8, u8)>(), any::<(u8, u8)>(), any::<[u8; 12]>())
        .prop_map(|(version, vendor, prefix)| SubM::InfoSrc { version, vendor, prefix });
    let loc = || {
        (
            prop_oneof![3 => select(vec![1i32, 2, 0, -1, 0x0100_0000]), 1 => any::<i32>()],
            prop_oneof![3 => 0u32..65_536, 1 => any::<u32>()],
            any::<[u8; 16]>(),
        )
            .prop_map(|(kind, port, addr)| Loc { kind, port, addr })
    };
    let info_reply = (any::<bool>(), prop::collection::vec(loc(), 0..=3), prop::collection::vec(loc(), 0..=3))
        .prop_map(|(multicast, uni, multi)| SubM::InfoReply { multicast, uni, multi });
    prop_oneof![
        5 => data,
        4 => data_frag,
        3 => gap,
        3 => acknack,
        3 => nackfrag,
        2 => hb,
        1 => hbfrag,
        2 => info_ts,
        1 => info_dst,
        1 => info_src,
        1 => info_reply,
        1 => Just(SubM::Pad),
    ]
    .boxed()
}

pub fn strategy() -> BoxedStrategy<MsgM> {
    (
        prop_oneof![1 => Just(None), 1 => any::<((u8, u8), (u8, u8))>().prop_map(Some)],
        any::<[u8; 12]>(),
        prop::collection::vec(sub(), 1..=6),
    )
        .prop_map(|(custom_header, prefix, subs)| normalise(MsgM { custom_header, prefix, subs }))
        .boxed()
}

/// Reduces payload, then parameter lengths, until the body is at most `max` octets.
fn fit(s: &mut SubM, max: usize) {
    loop {
        let size = s.min_body_size();
        if size <= max {
            return;
        }
        let excess = size - max;
        match s {
            SubM::Data { d, k, payload, qos, .. } => {
                if (*d || *k) && payload.len > 0 {
                    payload.len -= (excess as u32).min(payload.len);
                } else {
                    shrink_biggest_param(qos, excess);
                }
            }
            SubM::DataFrag { payload, qos, .. } => {
                if payload.len > 1 {
                    payload.len -= (excess as u32).min(payload.len - 1);
                } else {
                    shrink_biggest_param(qos, excess);
                }
            }
            _ => return,
        }
    }
}

fn shrink_biggest_param(qos: &mut Vec<Par>, excess: usize) {
    if let Some(p) = qos.iter_mut().max_by_key(|p| p.len) {
        if p.len == 0 {
            qos.pop();
            return;
        }
        let cut = ((excess + 3) & !3).min(p.len as usize);
        p.len -= cut as u16;
    }
}

/// Makes the generated message one a dust-dds component can build: flags consistent with content,
/// set members within the constructors' preconditions, fragment fields consistent, and bodies above
/// 65535 octets only in the last position (RTPS cannot express them anywhere else).
pub fn normalise(m: MsgM) -> MsgM {
    // two passes: the size fitting of the first pass can shorten a fragment run, which the second pass
    // takes into account for the sample size; the result is a fixed point (replay re-normalises)
    normalise_once(normalise_once(m))
}

fn normalise_once(mut m: MsgM) -> MsgM {
    let n = m.subs.len();
    for (i, s) in m.subs.iter_mut().enumerate() {
        match s {
            SubM::Data { q, d, k, n, qos, payload, .. } => {
                if *d && *k {
                    *k = false;
                }
                if !*q {
                    qos.clear();
                }
                if !(*d || *k) {
                    payload.len = 0;
                    *n = false;
                }
                payload.len = payload.len.min(MAX_PAYLOAD);
                for p in qos.iter_mut() {
                    p.len = p.len.min(MAX_PAR_LEN);
                }
            }
            SubM::DataFrag { q, qos, payload, frag_start, frags, frag_size, data_size, .. } => {
                if !*q {
                    qos.clear();
                }
                *frag_size = (*frag_size).max(1);
                *frags = (*frags).max(1);
                *frag_start = (*frag_start).max(1);
                let cap = (*frag_size as u32 * *frags as u32).min(MAX_PAYLOAD);
                payload.len = payload.len.clamp(1, cap);
                // sample size: at least up to the end of this fragment run, and must fit 32 bits
                let fs = *frag_size as u64;
                let max_start = (u32::MAX as u64 - payload.len as u64) / fs + 1;
                if *frag_start as u64 > max_start {
                    *frag_start = max_start as u32;
                }
                let min_size = (*frag_start as u64 - 1) * fs + payload.len as u64;
                // `data_size` holds a raw "extra" value from the generator (or an already final value on replay)
                let extra = if (*data_size as u64) < min_size { (*data_size as u64) % (4 * fs) } else { *data_size as u64 - min_size };
                // a shorter-than-full run can only be the last one of the sample
                let extra = if (payload.len as u64) < fs * *frags as u64 { 0 } else { extra };
                *data_size = (min_size + extra).min(u32::MAX as u64) as u32;
                for p in qos.iter_mut() {
                    p.len = p.len.min(MAX_PAR_LEN);
                }
            }
            SubM::Gap { base, offs, .. } | SubM::AckNack { base, offs, .. } => {
                let room = if *base > i64::MAX - 255 { i64::MAX - *base } else { 255 };
                *offs = norm_offs(offs).into_iter().filter(|o| (*o as i64) <= room).collect();
            }
            SubM::NackFrag { base, offs, .. } => {
                let room = u32::MAX - *base;
                *offs = norm_offs(offs).into_iter().filter(|o| (*o as u32) <= room).collect();
            }
            SubM::InfoTs { invalidate, sec, frac } => {
                if *invalidate {
                    *sec = 0xffff_ffff;
                    *frac = 0xffff_ffff;
                }
            }
            SubM::InfoReply { multicast, multi, .. } => {
                if !*multicast {
                    multi.clear();
                }
            }
            _ => {}
        }
        if i + 1 < n {
            fit(s, 0xffff);
        }
    }
    m
}

// ------------------------------------------------------------------------------------------------
// building the message with dust-dds

fn entity(e: &Eid) -> EntityId {
    EntityId::new([e[0], e[1], e[2]], e[3])
}

fn plist(qos: &[Par]) -> ParameterList {
    ParameterList::new(qos.iter().map(|p| Parameter::new(p.pid, p.bytes().into())).collect())
}

fn locs(l: &[Loc]) -> LocatorList {
    LocatorList::new(l.iter().map(|x| Locator::new(x.kind, x.port, x.addr)).collect())
}

fn build_sub(s: &SubM) -> Box<dyn Submessage + Send> {
    match s {
        SubM::Data { q, d, k, n, reader, writer, sn, qos, payload } => Box::new(DataSubmessage::new(
            *q,
            *d,
            *k,
            *n,
            entity(reader),
            entity(writer),
            *sn,
            plist(qos),
            Data::from(payload.bytes()),
        )),
        SubM::DataFrag { q, k, n, reader, writer, sn, frag_start, frags, frag_size, data_size, qos, payload, lead } => {
            // the way dust-dds builds it: a range of the whole sample buffer
            let mut buf = pattern(payload.seed.wrapping_add(1), *lead as usize);
            buf.extend_from_slice(&payload.bytes());
            buf.extend_from_slice(&pattern(7, (*lead % 7) as usize));
            let range = *lead as usize..*lead as usize + payload.len as usize;
            Box::new(DataFragSubmessage::new(
                *q,
                *n,
                *k,
                entity(reader),
                entity(writer),
                *sn,
                *frag_start,
                *frags,
                *frag_size,
                *data_size,
                plist(qos),
                SerializedDataFragment::new(Data::from(buf), range),
            ))
        }
        SubM::Gap { reader, writer, start, base, offs } => Box::new(GapSubmessage::new(
            entity(reader),
            entity(writer),
            *start,
            SequenceNumberSet::new(*base, offs.iter().map(|o| base.wrapping_add(*o as i64))),
        )),
        SubM::AckNack { fin, reader, writer, base, offs, count } => Box::new(AckNackSubmessage::new(
            *fin,
            entity(reader),
            entity(writer),
            SequenceNumberSet::new(*base, offs.iter().map(|o| base.wrapping_add(*o as i64))),
            *count,
        )),
        SubM::NackFrag { reader, writer, sn, base, offs, count } => Box::new(NackFragSubmessage::new(
            entity(reader),
            entity(writer),
            *sn,
            FragmentNumberSet::new(*base, offs.iter().map(|o| base.wrapping_add(*o as u32))),
            *count,
        )),
        SubM::Heartbeat { fin, live, reader, writer, first, last, count } => Box::new(HeartbeatSubmessage::new(
            *fin,
            *live,
            entity(reader),
            entity(writer),
            *first,
            *last,
            *count,
        )),
        SubM::HeartbeatFrag { reader, writer, sn, last_frag, count } => {
            Box::new(HeartbeatFragSubmessage::_new(entity(reader), entity(writer), *sn, *last_frag, *count))
        }
        SubM::InfoTs { invalidate, sec, frac } => {
            Box::new(InfoTimestampSubmessage::new(*invalidate, RtpsTime::new(*sec, *frac)))
        }
        SubM::InfoDst { prefix } => Box::new(InfoDestinationSubmessage::new(*prefix)),
        SubM::InfoSrc { version, vendor, prefix } => Box::new(InfoSourceSubmessage::_new(
            ProtocolVersion::new(version.0, version.1),
            [vendor.0, vendor.1],
            *prefix,
        )),
        SubM::InfoReply { multicast, uni, multi } => {
            Box::new(InfoReplySubmessage::_new(*multicast, locs(uni), locs(multi)))
        }
        SubM::Pad => Box::new(PadSubmessage::new()),
    }
}

fn build_with_dust(m: &MsgM) -> Vec<u8> {
    let boxed: Vec<Box<dyn Submessage + Send>> = m.subs.iter().map(build_sub).collect();
    let refs: Vec<&(dyn Submessage + Send)> = boxed.iter().map(|b| &**b).collect();
    let msg = match m.custom_header {
        None => RtpsMessageWrite::from_submessages(&refs, m.prefix),
        Some((v, vd)) => RtpsMessageWrite::new(
            &RtpsMessageHeader::new(ProtocolVersion::new(v.0, v.1), [vd.0, vd.1], m.prefix),
            &refs,
        ),
    };
    msg.buffer().to_vec()
}

// ------------------------------------------------------------------------------------------------
// comparisons

type Diff = Option<(String, String)>; // (field, detail)

fn d(field: &str, detail: String) -> Diff {
    Some((field.to_string(), detail))
}

macro_rules! eq {
    ($field:expr, $want:expr, $got:expr) => {
        if $want != $got {
            return d($field, format!("input {:?}, decoded {:?}", $want, $got));
        }
    };
}

fn members_i64(base: i64, offs: &[u8]) -> Vec<i64> {
    offs.iter().map(|o| base.wrapping_add(*o as i64)).collect()
}
fn members_u32(base: u32, offs: &[u8]) -> Vec<u32> {
    offs.iter().map(|o| base.wrapping_add(*o as u32)).collect()
}

fn short(v: &[u8]) -> String {
    if v.len() <= 12 { format!("{v:?}") } else { format!("{} bytes starting {:?}", v.len(), &v[..8]) }
}

fn first_diff(a: &[u8], b: &[u8]) -> String {
    if a.len() != b.len() {
        return format!("length {} vs {}", a.len(), b.len());
    }
    match a.iter().zip(b).position(|(x, y)| x != y) {
        Some(i) => format!("first difference at offset {i}: {} vs {}", a[i], b[i]),
        None => "equal".into(),
    }
}

/// dust-dds decode: parameter value may carry exactly the zero padding to the next multiple of 4.
fn cmp_params_dust(qos: &[Par], got: &ParameterList) -> Diff {
    let g = got.parameter();
    eq!("inline_qos.count", qos.len(), g.len());
    for (p, x) in qos.iter().zip(g) {
        eq!("inline_qos.parameter_id", p.pid, x.parameter_id());
        let want = p.bytes();
        let v = x.value();
        let ok = v == &want[..]
            || (v.len() == p.padded_len() && v[..want.len()] == want[..] && v[want.len()..].iter().all(|b| *b == 0));
        if !ok {
            return d(
                "inline_qos.value",
                format!("pid {:#06x}: input {}, decoded {}", p.pid, short(&want), short(v)),
            );
        }
    }
    None
}

fn cmp_params_wire(qos: &[Par], got: &[wire::Param]) -> Diff {
    eq!("inline_qos.count", qos.len(), got.len());
    for (p, x) in qos.iter().zip(got) {
        eq!("inline_qos.parameter_id", p.pid as u16, x.pid);
        let want = p.bytes();
        eq!("inline_qos.length", p.padded_len(), x.value.len());
        if x.value[..want.len()] != want[..] {
            return d("inline_qos.value", format!("pid {:#06x}: {}", p.pid, first_diff(&want, &x.value[..want.len()])));
        }
    }
    None
}

fn cmp_locs_dust(field: &str, want: &[Loc], got: &LocatorList) -> Diff {
    let g = got.value();
    eq!(field, want.len(), g.len());
    for (w, x) in want.iter().zip(g) {
        eq!(field, (w.kind, w.port, w.addr), (x.kind(), x.port(), x.address()));
    }
    None
}

fn eid_of(e: EntityId) -> Eid {
    let k = e.entity_key();
    [k[0], k[1], k[2], e.entity_kind()]
}

fn read_kind(r: &RtpsSubmessageReadKind) -> &'static str {
    match r {
        RtpsSubmessageReadKind::AckNack(_) => "ACKNACK",
        RtpsSubmessageReadKind::Data(_) => "DATA",
        RtpsSubmessageReadKind::DataFrag(_) => "DATA_FRAG",
        RtpsSubmessageReadKind::Gap(_) => "GAP",
        RtpsSubmessageReadKind::Heartbeat(_) => "HEARTBEAT",
        RtpsSubmessageReadKind::HeartbeatFrag(_) => "HEARTBEAT_FRAG",
        RtpsSubmessageReadKind::InfoDestination(_) => "INFO_DST",
        RtpsSubmessageReadKind::InfoReply(_) => "INFO_REPLY",
        RtpsSubmessageReadKind::InfoSource(_) => "INFO_SRC",
        RtpsSubmessageReadKind::InfoTimestamp(_) => "INFO_TS",
        RtpsSubmessageReadKind::NackFrag(_) => "NACK_FRAG",
        RtpsSubmessageReadKind::Pad(_) => "PAD",
    }
}

/// model vs dust-dds' decoded submessage, through the public accessors
fn cmp_dust(s: &SubM, r: &RtpsSubmessageReadKind) -> Diff {
    use RtpsSubmessageReadKind as K;
    match (s, r) {
        (SubM::Data { q, d: df, k, n, reader, writer, sn, qos, payload }, K::Data(x)) => {
            eq!("inline_qos_flag", *q, x._inline_qos_flag());
            eq!("data_flag", *df, x._data_flag());
            eq!("key_flag", *k, x._key_flag());
            eq!("non_standard_payload_flag", *n, x._non_standard_payload_flag());
            eq!("reader_id", *reader, eid_of(x.reader_id()));
            eq!("writer_id", *writer, eid_of(x.writer_id()));
            eq!("writer_sn", *sn, x.writer_sn());
            if let Some(df) = cmp_params_dust(qos, x.inline_qos()) {
                return Some(df);
            }
            let want = if *df || *k { payload.bytes() } else { vec![] };
            let got: &[u8] = x.serialized_payload().as_ref();
            if want != got {
                return d("serialized_payload", first_diff(&want, got));
            }
            None
        }
        (
            SubM::DataFrag { q, k, n, reader, writer, sn, frag_start, frags, frag_size, data_size, qos, payload, .. },
            K::DataFrag(x),
        ) => {
            eq!("inline_qos_flag", *q, x.inline_qos_flag());
            eq!("key_flag", *k, x.key_flag());
            eq!("non_standard_payload_flag", *n, x._non_standard_payload_flag());
            eq!("reader_id", *reader, eid_of(x.reader_id()));
            eq!("writer_id", *writer, eid_of(x.writer_id()));
            eq!("writer_sn", *sn, x.writer_sn());
            eq!("fragment_starting_num", *frag_start, x.fragment_starting_num());
            eq!("fragments_in_submessage", *frags, x.fragments_in_submessage());
            eq!("fragment_size", *frag_size, x.fragment_size());
            eq!("data_size", *data_size, x.data_size());
            if let Some(df) = cmp_params_dust(qos, x.inline_qos()) {
                return Some(df);
            }
            let want = payload.bytes();
            let got: &[u8] = x.serialized_payload().as_ref();
            if want != got {
                return d("serialized_payload", first_diff(&want, got));
            }
            None
        }
        (SubM::Gap { reader, writer, start, base, offs }, K::Gap(x)) => {
            eq!("reader_id", *reader, eid_of(x._reader_id()));
            eq!("writer_id", *writer, eid_of(x.writer_id()));
            eq!("gap_start", *start, x.gap_start());
            eq!("gap_list.base", *base, x.gap_list().base());
            eq!("gap_list.set", members_i64(*base, offs), x.gap_list().set().collect::<Vec<_>>());
            None
        }
        (SubM::AckNack { fin, reader, writer, base, offs, count }, K::AckNack(x)) => {
            eq!("final_flag", *fin, x._final_flag());
            eq!("reader_id", *reader, eid_of(*x.reader_id()));
            eq!("writer_id", *writer, eid_of(*x.writer_id()));
            eq!("reader_sn_state.base", *base, x.reader_sn_state().base());
            eq!("reader_sn_state.set", members_i64(*base, offs), x.reader_sn_state().set().collect::<Vec<_>>());
            eq!("count", *count, x.count());
            None
        }
        (SubM::NackFrag { reader, writer, sn, base, offs, count }, K::NackFrag(x)) => {
            eq!("reader_id", *reader, eid_of(x.reader_id()));
            eq!("writer_id", *writer, eid_of(x._writer_id()));
            eq!("writer_sn", *sn, x.writer_sn());
            eq!("fragment_number_state.base", *base, x.fragment_number_state().base());
            eq!(
                "fragment_number_state.set",
                members_u32(*base, offs),
                x.fragment_number_state().set().collect::<Vec<_>>()
            );
            eq!("count", *count, x.count());
            None
        }
        (SubM::Heartbeat { fin, live, reader, writer, first, last, count }, K::Heartbeat(x)) => {
            eq!("final_flag", *fin, x.final_flag());
            eq!("liveliness_flag", *live, x.liveliness_flag());
            eq!("reader_id", *reader, eid_of(x._reader_id()));
            eq!("writer_id", *writer, eid_of(x.writer_id()));
            eq!("first_sn", *first, x.first_sn());
            eq!("last_sn", *last, x.last_sn());
            eq!("count", *count, x.count());
            None
        }
        (SubM::HeartbeatFrag { reader, writer, sn, last_frag, count }, K::HeartbeatFrag(x)) => {
            eq!("reader_id", *reader, eid_of(x._reader_id()));
            eq!("writer_id", *writer, eid_of(x.writer_id()));
            eq!("writer_sn", *sn, x._writer_sn());
            eq!("last_fragment_num", *last_frag, x._last_fragment_num());
            eq!("count", *count, x.count());
            None
        }
        (SubM::InfoTs { invalidate, sec, frac }, K::InfoTimestamp(x)) => {
            eq!("invalidate_flag", *invalidate, x.invalidate_flag());
            if !*invalidate {
                eq!("timestamp.seconds", *sec, x.timestamp().seconds());
                eq!("timestamp.fraction", *frac, x.timestamp().fraction());
            }
            None
        }
        (SubM::InfoDst { prefix }, K::InfoDestination(x)) => {
            eq!("guid_prefix", *prefix, x.guid_prefix());
            None
        }
        (SubM::InfoSrc { version, vendor, prefix }, K::InfoSource(x)) => {
            eq!("protocol_version", *version, (x.protocol_version()._major(), x.protocol_version()._minor()));
            eq!("vendor_id", [vendor.0, vendor.1], x.vendor_id());
            eq!("guid_prefix", *prefix, x.guid_prefix());
            None
        }
        (SubM::InfoReply { multicast, uni, multi }, K::InfoReply(x)) => {
            eq!("multicast_flag", *multicast, x._multicast_flag());
            if let Some(df) = cmp_locs_dust("unicast_locator_list", uni, x._unicast_locator_list()) {
                return Some(df);
            }
            if *multicast {
                return cmp_locs_dust("multicast_locator_list", multi, x._multicast_locator_list());
            }
            None
        }
        (SubM::Pad, K::Pad(_)) => None,
        (s, r) => d("kind", format!("input {}, decoded {}", s.kind(), read_kind(r))),
    }
}

/// model vs the independent reader's view of the bytes
fn cmp_wire(s: &SubM, r: &wire::SubRaw, le: bool) -> Diff {
    eq!("submessage-id", s.id(), r.id);
    if s.flags() | le as u8 != r.flags {
        return d("flags", format!("flags octet for the input is {:#010b}, on the wire {:#010b}", s.flags() | le as u8, r.flags));
    }
    match (s, &r.sub) {
        (SubM::Data { d: df, k, reader, writer, sn, qos, payload, q, .. }, wire::Sub::Data { reader: r2, writer: w2, sn: sn2, inline_qos, payload: p2, .. }) => {
            eq!("reader_id", reader, r2);
            eq!("writer_id", writer, w2);
            eq!("writer_sn", sn, sn2);
            match (q, inline_qos) {
                (true, Some(g)) => {
                    if let Some(x) = cmp_params_wire(qos, g) {
                        return Some(x);
                    }
                }
                (false, None) => {}
                _ => return d("inline_qos", "presence differs".into()),
            }
            let want = if *df || *k { payload.bytes() } else { vec![] };
            if &want != p2 {
                return d("serialized_payload", first_diff(&want, p2));
            }
            None
        }
        (
            SubM::DataFrag { q, reader, writer, sn, frag_start, frags, frag_size, data_size, qos, payload, .. },
            wire::Sub::DataFrag { reader: r2, writer: w2, sn: sn2, frag_start: a, frags_in_submessage: b, frag_size: c, data_size: e, inline_qos, payload: p2, .. },
        ) => {
            eq!("reader_id", reader, r2);
            eq!("writer_id", writer, w2);
            eq!("writer_sn", sn, sn2);
            eq!("fragment_starting_num", frag_start, a);
            eq!("fragments_in_submessage", frags, b);
            eq!("fragment_size", frag_size, c);
            eq!("data_size", data_size, e);
            match (q, inline_qos) {
                (true, Some(g)) => {
                    if let Some(x) = cmp_params_wire(qos, g) {
                        return Some(x);
                    }
                }
                (false, None) => {}
                _ => return d("inline_qos", "presence differs".into()),
            }
            let want = payload.bytes();
            if &want != p2 {
                return d("serialized_payload", first_diff(&want, p2));
            }
            None
        }
        (SubM::Gap { reader, writer, start, base, offs }, wire::Sub::Gap { reader: r2, writer: w2, start: s2, list_base, num_bits, list }) => {
            eq!("reader_id", reader, r2);
            eq!("writer_id", writer, w2);
            eq!("gap_start", start, s2);
            eq!("gap_list.base", base, list_base);
            if *num_bits < min_num_bits(offs) {
                return d("gap_list.num_bits", format!("numBits {} cannot hold offset {:?}", num_bits, offs.last()));
            }
            eq!("gap_list.set", &members_i64(*base, offs), list);
            None
        }
        (SubM::AckNack { reader, writer, base, offs, count, .. }, wire::Sub::AckNack { reader: r2, writer: w2, base: b2, num_bits, set, count: c2, .. }) => {
            eq!("reader_id", reader, r2);
            eq!("writer_id", writer, w2);
            eq!("reader_sn_state.base", base, b2);
            if *num_bits < min_num_bits(offs) {
                return d("reader_sn_state.num_bits", format!("numBits {} cannot hold offset {:?}", num_bits, offs.last()));
            }
            eq!("reader_sn_state.set", &members_i64(*base, offs), set);
            eq!("count", count, c2);
            None
        }
        (SubM::NackFrag { reader, writer, sn, base, offs, count }, wire::Sub::NackFrag { reader: r2, writer: w2, sn: sn2, base: b2, num_bits, set, count: c2 }) => {
            eq!("reader_id", reader, r2);
            eq!("writer_id", writer, w2);
            eq!("writer_sn", sn, sn2);
            eq!("fragment_number_state.base", base, b2);
            if *num_bits < min_num_bits(offs) {
                return d("fragment_number_state.num_bits", format!("numBits {} cannot hold offset {:?}", num_bits, offs.last()));
            }
            eq!("fragment_number_state.set", &members_u32(*base, offs), set);
            eq!("count", count, c2);
            None
        }
        (SubM::Heartbeat { reader, writer, first, last, count, .. }, wire::Sub::Heartbeat { reader: r2, writer: w2, first: f2, last: l2, count: c2, .. }) => {
            eq!("reader_id", reader, r2);
            eq!("writer_id", writer, w2);
            eq!("first_sn", first, f2);
            eq!("last_sn", last, l2);
            eq!("count", count, c2);
            None
        }
        (SubM::HeartbeatFrag { reader, writer, sn, last_frag, count }, wire::Sub::HeartbeatFrag { reader: r2, writer: w2, sn: sn2, last_frag: l2, count: c2 }) => {
            eq!("reader_id", reader, r2);
            eq!("writer_id", writer, w2);
            eq!("writer_sn", sn, sn2);
            eq!("last_fragment_num", last_frag, l2);
            eq!("count", count, c2);
            None
        }
        (SubM::InfoTs { invalidate, sec, frac }, wire::Sub::InfoTs { ts }) => {
            match (invalidate, ts) {
                (true, None) => None,
                (false, Some((s2, f2))) => {
                    eq!("timestamp.seconds", sec, s2);
                    eq!("timestamp.fraction", frac, f2);
                    None
                }
                _ => d("timestamp", "presence differs from the invalidate flag".into()),
            }
        }
        (SubM::InfoDst { prefix }, wire::Sub::InfoDst { prefix: p2 }) => {
            eq!("guid_prefix", prefix, p2);
            None
        }
        (SubM::InfoSrc { version, vendor, prefix }, wire::Sub::InfoSrc { version: v2, vendor: d2, prefix: p2 }) => {
            eq!("protocol_version", version, v2);
            eq!("vendor_id", vendor, d2);
            eq!("guid_prefix", prefix, p2);
            None
        }
        (SubM::InfoReply { multicast, uni, multi }, wire::Sub::InfoReply { unicast, multicast: m2 }) => {
            let conv = |l: &[Loc]| l.iter().map(|x| (x.kind, x.port, x.addr)).collect::<Vec<_>>();
            eq!("unicast_locator_list", &conv(uni), unicast);
            match (multicast, m2) {
                (true, Some(g)) => {
                    eq!("multicast_locator_list", &conv(multi), g);
                    None
                }
                (false, None) => None,
                _ => d("multicast_locator_list", "presence differs from the multicast flag".into()),
            }
        }
        (SubM::Pad, wire::Sub::Pad) => None,
        (s, r) => d("kind", format!("input {}, independent reader saw {}", s.kind(), r.kind())),
    }
}

fn cmp_wire_msg(m: &MsgM, w: &wire::Msg, le: bool) -> Option<(String, String, String)> {
    if m.version() != w.version {
        return Some(("header".into(), "version".into(), format!("input {:?}, on the wire {:?}", m.version(), w.version)));
    }
    if m.vendor() != w.vendor {
        return Some(("header".into(), "vendor_id".into(), format!("input {:?}, on the wire {:?}", m.vendor(), w.vendor)));
    }
    if m.prefix != w.prefix {
        return Some(("header".into(), "guid_prefix".into(), format!("input {:?}, on the wire {:?}", m.prefix, w.prefix)));
    }
    for (i, s) in m.subs.iter().enumerate() {
        match w.subs.get(i) {
            None => {
                return Some((s.kind().into(), "missing".into(), format!("submessage #{i} not found by the independent reader")));
            }
            Some(r) => {
                if let Some((f, det)) = cmp_wire(s, r, le) {
                    return Some((s.kind().into(), f, format!("submessage #{i}: {det}")));
                }
            }
        }
    }
    if w.subs.len() != m.subs.len() {
        return Some(("message".into(), "extra-submessage".into(), format!("{} submessages built, {} on the wire", m.subs.len(), w.subs.len())));
    }
    None
}

fn cmp_dust_msg(m: &MsgM, r: &RtpsMessageRead) -> Option<(String, String, String)> {
    let h = r.header();
    let v = (h.version()._major(), h.version()._minor());
    if m.version() != v {
        return Some(("header".into(), "version".into(), format!("input {:?}, decoded {:?}", m.version(), v)));
    }
    if [m.vendor().0, m.vendor().1] != h.vendor_id() {
        return Some(("header".into(), "vendor_id".into(), format!("input {:?}, decoded {:?}", m.vendor(), h.vendor_id())));
    }
    if m.prefix != h.guid_prefix() {
        return Some(("header".into(), "guid_prefix".into(), format!("input {:?}, decoded {:?}", m.prefix, h.guid_prefix())));
    }
    let got = r.submessages();
    for (i, s) in m.subs.iter().enumerate() {
        match got.get(i) {
            None => {
                return Some((
                    s.kind().into(),
                    "missing".into(),
                    format!("submessage #{i} ({}) is absent from the decoded message ({} of {} decoded)", s.kind(), got.len(), m.subs.len()),
                ));
            }
            Some(x) => {
                if let Some((f, det)) = cmp_dust(s, x) {
                    // a kind mismatch after a dropped submessage is reported as the dropped one
                    if f == "kind" && got.len() < m.subs.len() {
                        return Some((s.kind().into(), "missing".into(), format!("submessage #{i} ({}) is absent from the decoded message: {det}", s.kind())));
                    }
                    return Some((s.kind().into(), f, format!("submessage #{i}: {det}")));
                }
            }
        }
    }
    if got.len() != m.subs.len() {
        return Some(("message".into(), "extra-submessage".into(), format!("{} submessages built, {} decoded", m.subs.len(), got.len())));
    }
    None
}

// ------------------------------------------------------------------------------------------------
// oracle

fn rd16(b: &[u8], p: usize, le: bool) -> Option<u16> {
    let s = b.get(p..p + 2)?;
    Some(if le { u16::from_le_bytes([s[0], s[1]]) } else { u16::from_be_bytes([s[0], s[1]]) })
}
fn rd32(b: &[u8], p: usize, le: bool) -> Option<u32> {
    let s = b.get(p..p + 4)?;
    let a = [s[0], s[1], s[2], s[3]];
    Some(if le { u32::from_le_bytes(a) } else { u32::from_be_bytes(a) })
}

/// Walks dust-dds' bytes with the sizes of the independent calculator and checks every
/// octetsToNextHeader. Returns failures (signature, explanation).
fn check_length_fields(m: &MsgM, bytes: &[u8]) -> Vec<(String, String)> {
    let mut out = vec![];
    if bytes.len() < 20 || &bytes[0..4] != b"RTPS" {
        out.push(("C08:encode:header:protocol-id".to_string(), format!("message of {} bytes does not start with an RTPS header", bytes.len())));
        return out;
    }
    let n = m.subs.len();
    let mut p = 20usize;
    for (i, s) in m.subs.iter().enumerate() {
        let kind = s.kind();
        if p + 4 > bytes.len() {
            out.push((format!("C08:encode:{kind}:body-size"), format!("message ends at byte {} before submessage #{i} ({kind}) expected at {p}", bytes.len())));
            return out;
        }
        let id = bytes[p];
        let flags = bytes[p + 1];
        let le = flags & 1 == 1;
        if id != s.id() {
            out.push((
                format!("C08:encode:{kind}:submessage-id"),
                format!("submessage #{i}: expected id {:#04x} ({kind}) at offset {p}, found {:#04x} (a preceding submessage has a different size than RTPS prescribes)", s.id(), id),
            ));
            return out;
        }
        let field = rd16(bytes, p + 2, le).unwrap();
        let body = p + 4;
        let mut num_bits = None;
        if let Some(pos) = s.num_bits_pos() {
            match rd32(bytes, body + pos, le) {
                Some(nb) if nb >= min_num_bits(s.offs().unwrap()) && nb <= 256 => num_bits = Some(nb),
                other => {
                    out.push((
                        format!("C08:encode:{kind}:num_bits"),
                        format!("submessage #{i}: numBits on the wire {:?}, needed {}..=256", other, min_num_bits(s.offs().unwrap())),
                    ));
                    return out;
                }
            }
        }
        let mut otq = None;
        let min_otq = match s {
            SubM::Data { .. } => Some(16u16),
            SubM::DataFrag { .. } => Some(28u16),
            _ => None,
        };
        if let Some(mo) = min_otq {
            match rd16(bytes, body + 2, le) {
                Some(v) if v >= mo && v % 4 == 0 && v <= mo + 64 => otq = Some(v),
                other => {
                    out.push((
                        format!("C08:encode:{kind}:octets_to_inline_qos"),
                        format!("submessage #{i}: octetsToInlineQos on the wire {:?}, expected {mo}", other),
                    ));
                    return out;
                }
            }
        }
        let expected = s.body_size(num_bits, otq);
        let is_last = i + 1 == n;
        let zero_allowed = is_last && !matches!(s, SubM::Pad | SubM::InfoTs { .. });
        let ok = if expected <= 0xffff {
            field as usize == expected || (field == 0 && zero_allowed)
        } else {
            field == 0 && zero_allowed
        };
        if !ok {
            if expected > 0xffff {
                out.push((
                    format!("C08:length-field:{kind}:over-64k"),
                    format!(
                        "submessage #{i} ({kind}, last of {n}) has a body of {expected} octets (> 65535): RTPS 2.5 9.4.5.1.3 demands octetsToNextHeader = 0 (extends to end of message), dust-dds wrote {field} (= {expected} mod 65536)"
                    ),
                ));
            } else {
                out.push((
                    format!("C08:length-field:{kind}"),
                    format!("submessage #{i} ({kind}): body is {expected} octets, octetsToNextHeader says {field}"),
                ));
            }
        }
        p = body + expected;
    }
    if p != bytes.len() {
        let kind = m.subs.last().map(|s| s.kind()).unwrap_or("message");
        out.push((
            format!("C08:encode:{kind}:body-size"),
            format!("encoded message has {} bytes, RTPS sizes of the submessages add up to {p}", bytes.len()),
        ));
    }
    out
}

pub struct Eval {
    pub failures: Vec<(String, String)>,
    pub dust_len: usize,
}

pub fn evaluate(m: &MsgM) -> Eval {
    let mut fails: Vec<(String, String)> = vec![];
    let mut dust_len = 0;
    // (1)+(2): dust-dds encodes
    match guarded(|| build_with_dust(m)) {
        Err(p) => fails.push((format!("C08:panic:{p}"), format!("building/encoding the message panicked: {p}"))),
        Ok(bytes) => {
            dust_len = bytes.len();
            let lf = check_length_fields(m, &bytes);
            let structure_ok = lf.is_empty();
            fails.extend(lf);
            if structure_ok {
                let before = fails.len();
                match wire::parse(&bytes) {
                    None => fails.push((
                        "C08:encode:message:unparseable".into(),
                        "the independent RTPS reader cannot parse the bytes dust-dds produced".into(),
                    )),
                    Some(w) => {
                        if let Some((k, f, det)) = cmp_wire_msg(m, &w, true) {
                            fails.push((format!("C08:encode:{k}:{f}"), format!("independent reader vs input: {det}")));
                        }
                    }
                }
                // dust-dds' own decode is only judged on bytes the independent reader found faithful
                // (an encoder defect is one root cause, not two)
                let encode_ok = fails.len() == before;
                match guarded(|| RtpsMessageRead::try_from(&bytes[..])) {
                    _ if !encode_ok => {}
                    Err(p) => fails.push((format!("C08:panic:{p}"), format!("decoding dust-dds' own bytes panicked: {p}"))),
                    Ok(Err(e)) => fails.push(("C08:roundtrip:message:decode-error".into(), format!("RtpsMessageRead::try_from returned {e:?}"))),
                    Ok(Ok(r)) => {
                        if let Some((k, f, det)) = cmp_dust_msg(m, &r) {
                            fails.push((format!("C08:roundtrip:{k}:{f}"), format!("decode(encode(x)) != x: {det}")));
                        }
                    }
                }
            }
        }
    }
    // (3): harness encodings of the same message, both endiannesses, decoded by dust-dds
    for (le, name) in [(false, "big-endian"), (true, "little-endian")] {
        let bytes = refwire::encode(m, le);
        // self-check of the reference side against the second independent implementation
        match wire::parse(&bytes) {
            None => fails.push(("harness:refwire-unparseable".into(), format!("{name} reference encoding not parseable by vcore::wire"))),
            Some(w) => {
                if let Some((k, f, det)) = cmp_wire_msg(m, &w, le) {
                    fails.push((format!("harness:refwire:{k}:{f}"), format!("{name} reference encoding disagrees with vcore::wire: {det}")));
                    continue;
                }
            }
        }
        match guarded(|| RtpsMessageRead::try_from(&bytes[..])) {
            Err(p) => fails.push((format!("C08:panic:{p}"), format!("decoding the {name} encoding panicked: {p}"))),
            Ok(Err(e)) => fails.push((format!("C08:{name}:message:decode-error"), format!("RtpsMessageRead::try_from returned {e:?}"))),
            Ok(Ok(r)) => {
                if let Some((k, f, det)) = cmp_dust_msg(m, &r) {
                    fails.push((
                        format!("C08:{name}:{k}:{f}"),
                        format!("dust-dds decodes the {name} RTPS encoding of the message differently: {det}"),
                    ));
                }
            }
        }
    }
    Eval { failures: fails, dust_len }
}

// ------------------------------------------------------------------------------------------------
// classification

fn sn_class(v: i64, cl: &mut BTreeSet<&'static str>) {
    let near = |a: i64| (v as i128 - a as i128).abs() <= 3;
    if v < 0 {
        cl.insert("sn_negative");
    } else if v <= 2 {
        cl.insert("sn_at_0_1_2");
    }
    if near(1 << 31) {
        cl.insert("sn_at_2^31");
    }
    if near(1 << 32) {
        cl.insert("sn_at_2^32");
    }
    if v > i64::MAX - 300 {
        cl.insert("sn_at_2^63-1");
    }
}

fn set_class(offs: &[u8], cl: &mut BTreeSet<&'static str>) {
    match min_num_bits(offs) {
        0 => cl.insert("set_numbits_0"),
        1 => cl.insert("set_numbits_1"),
        32 | 33 | 64 | 65 => cl.insert("set_numbits_word_edge"),
        255 => cl.insert("set_numbits_255"),
        256 => cl.insert("set_numbits_256"),
        _ => false,
    };
}

fn count_class(c: i32, cl: &mut BTreeSet<&'static str>) {
    if c == i32::MAX || c == i32::MIN || c == -1 || c == 0 {
        cl.insert("count_boundary");
    }
}

fn qos_class(qos: &[Par], cl: &mut BTreeSet<&'static str>) {
    if qos.iter().any(|p| p.len % 4 != 0) {
        cl.insert("param_len_not_mult_4");
    }
    if qos.iter().any(|p| p.len >= 32_761) {
        cl.insert("param_len_near_i16_max");
    }
    if qos.len() == 5 {
        cl.insert("qos_5_params");
    }
    if qos.iter().any(|p| p.seed == 0 && p.len % 4 != 0) {
        cl.insert("param_value_trailing_zeros");
    }
}

/// (boundary classes, other classes)
pub fn classify(m: &MsgM) -> (BTreeSet<&'static str>, Vec<String>) {
    let mut b = BTreeSet::new();
    let mut other = vec![];
    for s in &m.subs {
        other.push(format!("kind_{}", s.kind()));
        let sns: Vec<i64> = match s {
            SubM::Data { sn, .. } | SubM::DataFrag { sn, .. } | SubM::NackFrag { sn, .. } | SubM::HeartbeatFrag { sn, .. } => vec![*sn],
            SubM::Gap { start, base, .. } => vec![*start, *base],
            SubM::AckNack { base, .. } => vec![*base],
            SubM::Heartbeat { first, last, .. } => vec![*first, *last],
            _ => vec![],
        };
        if sns.iter().any(|v| *v > (1 << 32)) {
            other.push("sn_high_word_nonzero".into());
        }
        let body = s.min_body_size();
        if body > 0xffff {
            b.insert("body_over_64k_last");
        } else if body >= 65_500 {
            b.insert("body_65500..=65535");
        }
        if body == 0xffff {
            b.insert("body_exactly_65535");
        }
        match s {
            SubM::Data { q, d, k, sn, qos, payload, .. } => {
                sn_class(*sn, &mut b);
                qos_class(qos, &mut b);
                if *q {
                    other.push("data_with_inline_qos".into());
                }
                if (*d || *k) && payload.len == 0 {
                    b.insert("payload_empty_with_flag");
                }
                if payload.len % 4 != 0 {
                    other.push("payload_len_not_mult_4".into());
                }
            }
            SubM::DataFrag { sn, qos, frag_start, frag_size, .. } => {
                sn_class(*sn, &mut b);
                qos_class(qos, &mut b);
                if *frag_start >= 65_535 {
                    b.insert("frag_start_ge_2^16");
                }
                if *frag_size >= 65_000 {
                    b.insert("frag_size_ge_65000");
                }
            }
            SubM::Gap { start, base, offs, .. } => {
                sn_class(*start, &mut b);
                sn_class(*base, &mut b);
                set_class(offs, &mut b);
            }
            SubM::AckNack { base, offs, count, .. } => {
                sn_class(*base, &mut b);
                set_class(offs, &mut b);
                count_class(*count, &mut b);
            }
            SubM::NackFrag { sn, base, offs, count, .. } => {
                sn_class(*sn, &mut b);
                set_class(offs, &mut b);
                count_class(*count, &mut b);
                if *base >= u32::MAX - 256 {
                    b.insert("frag_base_at_u32_max");
                }
            }
            SubM::Heartbeat { first, last, count, .. } => {
                sn_class(*first, &mut b);
                sn_class(*last, &mut b);
                count_class(*count, &mut b);
            }
            SubM::HeartbeatFrag { sn, count, .. } => {
                sn_class(*sn, &mut b);
                count_class(*count, &mut b);
            }
            SubM::InfoTs { invalidate, .. } => {
                if *invalidate {
                    b.insert("info_ts_invalidate");
                }
            }
            SubM::InfoReply { multicast, .. } => {
                if *multicast {
                    other.push("info_reply_multicast".into());
                }
            }
            _ => {}
        }
    }
    (b, other)
}

fn outcome(m: &MsgM, known: &Known) -> CaseOutcome {
    let js = serde_json::to_value(m).unwrap();
    let key = vcore::hash_json(&js);
    let ev = evaluate(m);
    let (boundary, other) = classify(m);
    let mut out = CaseOutcome::pass(key, !boundary.is_empty());
    out.classes = boundary.iter().map(|s| s.to_string()).chain(other).collect();
    out.classes.push(format!("submessages_{}", m.subs.len()));
    if !boundary.is_empty() {
        out.sample = Some(json!({"case": js, "encoded_bytes": ev.dust_len, "boundary": boundary}));
    }
    // report the first failure that is not a listed finding; otherwise the first listed one
    let pick = ev.failures.iter().find(|(s, _)| !known.matches(s)).or(ev.failures.first());
    if let Some((s, w)) = pick {
        out = out.fail(s.clone(), w.clone());
    }
    out
}

const RULE: &str = "generated RTPS message: header (dust-dds' own or arbitrary version/vendor) + 1-6 submessages of the 12 kinds dust-dds has constructors for, flags consistent with content, bodies > 65535 octets only in last position; non-trivial = at least one field in a boundary class (sequence number at 0/1/2, within 3 of 2^31 or 2^32, within 300 of 2^63-1 or negative; bitmap set with numBits 0, 1, 32/33/64/65, 255 or 256; count at 0/-1/i32::MIN/i32::MAX; parameter length not a multiple of 4 or near 32767; payload empty with D/K flag; body size 65500..=65535 or above 65535; fragment number/base at the 16/32-bit edges; INFO_TS invalidate); distinct = hash of the case encoding";

pub fn main(ctx: &Ctx) -> ! {
    let meta = Meta {
        rule: RULE,
        assumptions: &[
            "reference side: harness-side RTPS size calculator/encoder (refwire.rs) and vcore::wire reader, both transcribed from DDSI-RTPS 2.5 section 9.4; they are cross-checked against each other on every case",
            "sequence-number sets are compared by base and members (numBits may be any value that covers the members)",
            "decoded inline-QoS parameter values may carry the zero padding up to the next multiple of 4",
            "a submessage body above 65535 octets is only generated as the last submessage (no RTPS encoding exists otherwise)",
        ],
        nontrivial_floor: ctx.pick(2_000, 20_000),
    };
    let known = Known::load(&ctx.id);
    let mut report = Report::default();
    if let Some(path) = &ctx.replay {
        let v = vcore::load_replay(path);
        let m: MsgM = serde_json::from_value(v).unwrap_or_else(|e| {
            eprintln!("replay file does not hold a C08 case: {e}");
            std::process::exit(2)
        });
        let m = normalise(m);
        let ev = evaluate(&m);
        println!("replay C08: {} submessages, dust-dds encoding {} bytes", m.subs.len(), ev.dust_len);
        for (i, s) in m.subs.iter().enumerate() {
            println!("  #{i} {} body {} octets", s.kind(), s.min_body_size());
        }
        if ev.failures.is_empty() {
            println!("  oracle: all sub-oracles hold");
        }
        for (s, w) in &ev.failures {
            println!("  oracle: {s}: {w}");
        }
        report.stats.evaluations = 1;
        if let Some((s, w)) = ev.failures.first() {
            report.failures.push(Failure {
                signature: s.clone(),
                what: w.clone(),
                case: serde_json::to_value(&m).unwrap(),
                shrunk_from: None,
                shrunk_to: None,
            });
        }
        vcore::finish(ctx, meta, report);
    }
    let cases: u32 = ctx.pick(100_000, 6_000_000);
    let shards = ctx.pick(4, 8);
    let report = vcore::run_sharded(ctx, shards, |ctx| {
        let mut report = Report::default();
        let n = ctx.share(cases as u64) as u32;
        let strat = strategy();
        if let Some(f) = vcore::pt::run_cases(
            n,
            ctx.rng_seed("messages"),
            2_000,
            &strat,
            &mut report.stats,
            &known,
            |m| outcome(m, &known),
            |m| serde_json::to_value(m).unwrap(),
        ) {
            report.failures.push(f);
        }
        report
    });
    vcore::finish(ctx, meta, report)
}
