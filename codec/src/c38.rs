//! C38: RtpsUdpTransportParticipantFactory::set_fragment_size accepts exactly 8..=65000, rejects everything else
//! with BadParameter and leaves the previous setting unchanged.
//!
//! A case is a sequence of 1-5 calls on a fresh (default) factory. Reference model: state = value returned by
//! `fragment_size()` on the fresh factory; `set(x)` -> Ok and state = x iff 8 <= x <= 65000, else
//! Err(BadParameter) and state unchanged. The case stops at the first divergence (afterwards the
//! "previous setting is in the accepted range" precondition of the statement no longer holds).

use dust_dds::{
    infrastructure::error::DdsError, rtps_udp_transport::udp_transport::RtpsUdpTransportParticipantFactory,
};
use proptest::prelude::*;
use proptest::sample::select;
use serde::{Deserialize, Serialize};
use serde_json::json;
use vcore::{Ctx, Failure, Known, Meta, Report, pt::CaseOutcome};

use crate::util::guarded;

const LO: usize = 8;
const HI: usize = 65_000;

#[derive(Clone, Debug, Serialize, Deserialize)]
pub struct Case {
    /// arguments of consecutive set_fragment_size calls on one factory
    pub calls: Vec<u64>,
}

fn boundary_args() -> Vec<u64> {
    vec![
        0,
        1,
        2,
        7,
        8,
        9,
        10,
        1343,
        1344,
        1345,
        32_767,
        32_768,
        64_999,
        65_000,
        65_001,
        65_002,
        65_535,
        65_536,
        65_537,
        1 << 31,
        (1 << 32) - 1,
        1 << 32,
        usize::MAX as u64 - 1,
        usize::MAX as u64,
    ]
}

fn arg() -> BoxedStrategy<u64> {
    prop_oneof![
        4 => select(boundary_args()),
        3 => (LO as u64)..=(HI as u64),
        1 => 0u64..LO as u64,
        2 => (HI as u64 + 1)..200_000,
        1 => any::<u64>(),
        1 => any::<u32>().prop_map(|v| v as u64),
    ]
    .boxed()
}

fn in_range(x: u64) -> bool {
    (LO as u64..=HI as u64).contains(&x)
}

pub fn strategy() -> BoxedStrategy<Case> {
    // the last call is the call under test; the earlier ones establish "any previous setting":
    // mostly accepted values, sometimes rejected ones (which must leave the setting alone)
    (prop::collection::vec(prop_oneof![3 => (LO as u64)..=(HI as u64), 2 => select(vec![8u64, 9, 1344, 64_999, 65_000]), 1 => arg()], 0..=3), arg(), prop::option::weighted(0.3, arg()))
        .prop_map(|(mut prev, x, again)| {
            prev.push(x);
            if let Some(y) = again {
                prev.push(y);
            }
            Case { calls: prev }
        })
        .boxed()
}

pub struct Eval {
    pub failure: Option<(String, String)>,
    pub trace: Vec<String>,
    pub rejected_seen: bool,
    pub accepted_seen: bool,
}

fn shape(x: u64) -> &'static str {
    if x < LO as u64 {
        "below-8"
    } else if x > HI as u64 {
        "above-65000"
    } else {
        "in-range"
    }
}

pub fn evaluate(c: &Case) -> Eval {
    let mut trace = vec![];
    let mut ev = Eval { failure: None, trace: vec![], rejected_seen: false, accepted_seen: false };
    let r = guarded(|| {
        let mut f = RtpsUdpTransportParticipantFactory::default();
        let mut model = f.fragment_size();
        trace.push(format!("default fragment_size() = {model}"));
        if !in_range(model as u64) {
            return Some(("C38:default-out-of-range".to_string(), format!("the default fragment size {model} is outside 8..=65000")));
        }
        for (i, x) in c.calls.iter().enumerate() {
            let x = *x as usize;
            let res = f.set_fragment_size(x).map(|_| ());
            let now = f.fragment_size();
            trace.push(format!("call {i}: set_fragment_size({x}) -> {:?}, fragment_size() = {now}", res.as_ref().map_err(|e| format!("{e:?}"))));
            let want_ok = in_range(x as u64);
            match (&res, want_ok) {
                (Ok(()), false) => {
                    return Some((
                        "C38:accepts-out-of-range".to_string(),
                        format!("previous setting {model}; set_fragment_size({x}) ({}) returned Ok and fragment_size() is now {now}; documented range is 8..=65000", shape(x as u64)),
                    ));
                }
                (Err(e), true) => {
                    return Some((
                        "C38:rejects-in-range".to_string(),
                        format!("previous setting {model}; set_fragment_size({x}) returned Err({e:?}) although 8 <= {x} <= 65000"),
                    ));
                }
                (Ok(()), true) => {
                    if now != x {
                        return Some((
                            "C38:value-not-stored".to_string(),
                            format!("set_fragment_size({x}) returned Ok but fragment_size() returns {now} (previous setting {model})"),
                        ));
                    }
                    model = x;
                }
                (Err(e), false) => {
                    if !matches!(e, DdsError::BadParameter) {
                        return Some((
                            "C38:wrong-error-kind".to_string(),
                            format!("set_fragment_size({x}) returned Err({e:?}), BadParameter is documented"),
                        ));
                    }
                    if now != model {
                        return Some((
                            "C38:state-changed-on-error".to_string(),
                            format!("set_fragment_size({x}) returned BadParameter but fragment_size() changed from {model} to {now}"),
                        ));
                    }
                }
            }
        }
        None
    });
    match r {
        Ok(f) => ev.failure = f,
        Err(p) => ev.failure = Some((format!("C38:panic:{p}"), format!("set_fragment_size panicked: {p}"))),
    }
    ev.rejected_seen = c.calls.iter().any(|x| !in_range(*x));
    ev.accepted_seen = c.calls.iter().any(|x| in_range(*x));
    ev.trace = trace;
    ev
}

fn classes(c: &Case) -> Vec<String> {
    let mut v = vec![];
    let last = *c.calls.last().unwrap();
    v.push(format!("last_arg_{}", shape(last)));
    if matches!(last, 7 | 8 | 9 | 64_999 | 65_000 | 65_001) {
        v.push("last_arg_at_range_edge".into());
    }
    if last > u32::MAX as u64 {
        v.push("last_arg_above_u32".into());
    }
    v.push(format!("calls_{}", c.calls.len()));
    v
}

fn outcome(c: &Case) -> CaseOutcome {
    let js = serde_json::to_value(c).unwrap();
    let key = vcore::hash_json(&js);
    let ev = evaluate(c);
    // non-trivial: at least one argument outside the range (rejection path) or exactly at an edge
    let nontrivial = ev.rejected_seen || c.calls.iter().any(|x| matches!(*x, 8 | 65_000));
    let mut out = CaseOutcome::pass(key, nontrivial);
    out.classes = classes(c);
    if nontrivial {
        out.sample = Some(json!({"calls": c.calls, "trace": ev.trace}));
    }
    if let Some((s, w)) = ev.failure {
        out = out.fail(s, w);
    }
    out
}

const RULE: &str = "case = 1-5 consecutive set_fragment_size calls on a default factory, arguments from {0,1,2,7,8,9,10,1343..1345,32767,32768,64999,65000,65001,65002,65535..65537,2^31,2^32-1,2^32,usize::MAX-1,usize::MAX}, uniform in range, just above, below, and arbitrary u64; plus the full enumeration previous-setting x argument over the boundary lists; non-trivial = some argument lies outside 8..=65000 or exactly on 8 / 65000; distinct = hash of the call list";

pub fn main(ctx: &Ctx) -> ! {
    let meta = Meta {
        rule: RULE,
        assumptions: &[
            "documented range taken from the doc comment of set_fragment_size and the property statement: 8..=65000",
            "64-bit usize (arguments above u32::MAX are passed as such)",
        ],
        nontrivial_floor: ctx.pick(1_000, 10_000),
    };
    let known = Known::load(&ctx.id);
    let mut report = Report::default();
    if let Some(path) = &ctx.replay {
        let v = vcore::load_replay(path);
        let c: Case = serde_json::from_value(v).unwrap_or_else(|e| {
            eprintln!("replay file does not hold a C38 case: {e}");
            std::process::exit(2)
        });
        let ev = evaluate(&c);
        println!("replay C38: calls {:?}", c.calls);
        for t in &ev.trace {
            println!("  {t}");
        }
        report.stats.evaluations = 1;
        match ev.failure {
            Some((s, w)) => {
                println!("  oracle: {s}: {w}");
                report.failures.push(Failure { signature: s, what: w, case: serde_json::to_value(&c).unwrap(), shrunk_from: None, shrunk_to: None });
            }
            None => println!("  oracle: holds"),
        }
        vcore::finish(ctx, meta, report);
    }

    // (1) enumeration: every previous setting of the list x every boundary argument (+ a follow-up call)
    let prevs: Vec<Option<u64>> = vec![None, Some(8), Some(9), Some(1344), Some(64_999), Some(65_000)];
    let mut enumerated: Vec<Case> = vec![];
    for p in &prevs {
        for x in boundary_args() {
            let mut calls: Vec<u64> = p.iter().copied().collect();
            calls.push(x);
            enumerated.push(Case { calls: calls.clone() });
            // the setting must still behave afterwards
            for y in [8u64, 65_000, 7, 65_001] {
                let mut c2 = calls.clone();
                c2.push(y);
                enumerated.push(Case { calls: c2 });
            }
        }
    }
    // report the smallest failing case per signature
    let mut by_sig: std::collections::BTreeMap<String, (u64, Case, String)> = Default::default();
    for c in &enumerated {
        let o = outcome(c);
        report.stats.case(o.key, o.nontrivial, &o.classes);
        report.stats.class("enumerated_boundary_case");
        if let Some((s, w)) = o.verdict {
            let e = by_sig.entry(s).or_insert_with(|| (0, c.clone(), w.clone()));
            e.0 += 1;
            if c.calls.len() < e.1.calls.len() {
                e.1 = c.clone();
                e.2 = w;
            }
        }
    }
    for (sig, (n, c, w)) in by_sig {
        if known.matches(&sig) {
            *report.stats.excluded_known.entry(sig).or_insert(0) += n;
        } else {
            report.failures.push(Failure { signature: sig, what: w, case: serde_json::to_value(&c).unwrap(), shrunk_from: None, shrunk_to: None });
        }
    }

    // (2) generated call sequences
    let cases: u32 = ctx.pick(20_000, 1_000_000);
    let strat = strategy();
    if let Some(f) = vcore::pt::run_cases(
        cases,
        ctx.rng_seed("calls"),
        2_000,
        &strat,
        &mut report.stats,
        &known,
        outcome,
        |c| serde_json::to_value(c).unwrap(),
    ) {
        report.failures.push(f);
    }
    vcore::finish(ctx, meta, report)
}
