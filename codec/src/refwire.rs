//! R-RTPS-WIRE: message model, reference encoder (both endiannesses) and submessage body-size
//! calculator, written from DDSI-RTPS 2.5 §8.3.3-§8.3.8 / §9.4.2 / §9.4.5. Shares no code with dust-dds.
//!
//! Layout facts used (PSM, §9.4.5; every multi-octet number is written in the endianness selected by
//! the E flag of the submessage header, octet arrays are never swapped):
//!   Header            : 'R','T','P','S', ProtocolVersion(2 octets), VendorId(2 octets), GuidPrefix(12 octets)
//!   SubmessageHeader  : submessageId(1), flags(1), octetsToNextHeader(ushort)
//!   EntityId          : 4 octets;  SequenceNumber: long high, ulong low;  Count: long; FragmentNumber: ulong
//!   SequenceNumberSet : SequenceNumber bitmapBase, ulong numBits, long[(numBits+31)/32] bitmap (MSB first)
//!   FragmentNumberSet : ulong bitmapBase, ulong numBits, long[(numBits+31)/32] bitmap
//!   Parameter         : short parameterId, short length (multiple of 4), octet value[length]; list ends with
//!                       PID_SENTINEL(1), length ignored
//!   Locator           : long kind, ulong port, octet address[16];  LocatorList: ulong numLocators, Locator[]
//!   Timestamp         : ulong seconds, ulong fraction
//!   DATA      : ushort extraFlags, ushort octetsToInlineQos(=16), readerId, writerId, writerSN, [inlineQos], [payload]
//!   DATA_FRAG : ushort extraFlags, ushort octetsToInlineQos(=28), readerId, writerId, writerSN, fragmentStartingNum,
//!               ushort fragmentsInSubmessage, ushort fragmentSize, ulong sampleSize, [inlineQos], payload
//!   HEARTBEAT : readerId, writerId, firstSN, lastSN, count          ACKNACK : readerId, writerId, readerSNState, count
//!   GAP       : readerId, writerId, gapStart, gapList               NACK_FRAG: readerId, writerId, writerSN, fragmentNumberState, count
//!   HEARTBEAT_FRAG: readerId, writerId, writerSN, lastFragmentNum, count
//!   INFO_TS   : [timestamp] (absent with I flag)   INFO_DST: guidPrefix   INFO_SRC: long unused, version, vendor, guidPrefix
//!   INFO_REPLY: unicastLocatorList, [multicastLocatorList] (with M flag)   PAD: empty
//!   Flags (bit 0 = E): DATA Q=1 D=2 K=3 N=4; DATA_FRAG Q=1 K=2 N=3; HEARTBEAT F=1 L=2; ACKNACK F=1; INFO_TS I=1;
//!   INFO_REPLY M=1.
//!   octetsToNextHeader = number of octets from the first octet of the submessage body to the next
//!   submessage header; 0 is additionally allowed for the last submessage of a message (other than PAD / INFO_TS),
//!   which then extends to the end of the message (§9.4.5.1.3) - the only way to carry a body > 65535 octets.

use crate::util::pattern;
use serde::{Deserialize, Serialize};

#[derive(Clone, Debug, PartialEq, Eq, Serialize, Deserialize)]
pub struct Blob {
    pub len: u32,
    pub seed: u8,
}

impl Blob {
    pub fn bytes(&self) -> Vec<u8> {
        pattern(self.seed, self.len as usize)
    }
}

#[derive(Clone, Debug, PartialEq, Eq, Serialize, Deserialize)]
pub struct Par {
    pub pid: i16,
    pub len: u16,
    pub seed: u8,
}

impl Par {
    pub fn bytes(&self) -> Vec<u8> {
        pattern(self.seed, self.len as usize)
    }
    pub fn padded_len(&self) -> usize {
        (self.len as usize + 3) & !3
    }
}

#[derive(Clone, Debug, PartialEq, Eq, Serialize, Deserialize)]
pub struct Loc {
    pub kind: i32,
    pub port: u32,
    pub addr: [u8; 16],
}

pub type Eid = [u8; 4];

#[derive(Clone, Debug, PartialEq, Eq, Serialize, Deserialize)]
pub enum SubM {
    Data { q: bool, d: bool, k: bool, n: bool, reader: Eid, writer: Eid, sn: i64, qos: Vec<Par>, payload: Blob },
    DataFrag {
        q: bool,
        k: bool,
        n: bool,
        reader: Eid,
        writer: Eid,
        sn: i64,
        frag_start: u32,
        frags: u16,
        frag_size: u16,
        data_size: u32,
        qos: Vec<Par>,
        payload: Blob,
        /// how many bytes precede the fragment inside the sample buffer the fragment is a range of
        lead: u16,
    },
    Gap { reader: Eid, writer: Eid, start: i64, base: i64, offs: Vec<u8> },
    AckNack { fin: bool, reader: Eid, writer: Eid, base: i64, offs: Vec<u8>, count: i32 },
    NackFrag { reader: Eid, writer: Eid, sn: i64, base: u32, offs: Vec<u8>, count: i32 },
    Heartbeat { fin: bool, live: bool, reader: Eid, writer: Eid, first: i64, last: i64, count: i32 },
    HeartbeatFrag { reader: Eid, writer: Eid, sn: i64, last_frag: u32, count: i32 },
    InfoTs { invalidate: bool, sec: u32, frac: u32 },
    InfoDst { prefix: [u8; 12] },
    InfoSrc { version: (u8, u8), vendor: (u8, u8), prefix: [u8; 12] },
    InfoReply { multicast: bool, uni: Vec<Loc>, multi: Vec<Loc> },
    Pad,
}

#[derive(Clone, Debug, PartialEq, Eq, Serialize, Deserialize)]
pub struct MsgM {
    /// None: header built by `RtpsMessageWrite::from_submessages` (dust-dds' own version/vendor)
    pub custom_header: Option<((u8, u8), (u8, u8))>,
    pub prefix: [u8; 12],
    pub subs: Vec<SubM>,
}

pub const DUST_VERSION: (u8, u8) = (2, 4);
pub const DUST_VENDOR: (u8, u8) = (0x01, 0x14);

impl MsgM {
    pub fn version(&self) -> (u8, u8) {
        self.custom_header.map(|h| h.0).unwrap_or(DUST_VERSION)
    }
    pub fn vendor(&self) -> (u8, u8) {
        self.custom_header.map(|h| h.1).unwrap_or(DUST_VENDOR)
    }
}

/// sorted, de-duplicated offsets
pub fn norm_offs(offs: &[u8]) -> Vec<u8> {
    let mut v = offs.to_vec();
    v.sort_unstable();
    v.dedup();
    v
}

pub fn min_num_bits(offs: &[u8]) -> u32 {
    offs.iter().map(|o| *o as u32 + 1).max().unwrap_or(0)
}

impl SubM {
    pub fn kind(&self) -> &'static str {
        match self {
            SubM::Data { .. } => "DATA",
            SubM::DataFrag { .. } => "DATA_FRAG",
            SubM::Gap { .. } => "GAP",
            SubM::AckNack { .. } => "ACKNACK",
            SubM::NackFrag { .. } => "NACK_FRAG",
            SubM::Heartbeat { .. } => "HEARTBEAT",
            SubM::HeartbeatFrag { .. } => "HEARTBEAT_FRAG",
            SubM::InfoTs { .. } => "INFO_TS",
            SubM::InfoDst { .. } => "INFO_DST",
            SubM::InfoSrc { .. } => "INFO_SRC",
            SubM::InfoReply { .. } => "INFO_REPLY",
            SubM::Pad => "PAD",
        }
    }

    pub fn id(&self) -> u8 {
        match self {
            SubM::Pad => 0x01,
            SubM::AckNack { .. } => 0x06,
            SubM::Heartbeat { .. } => 0x07,
            SubM::Gap { .. } => 0x08,
            SubM::InfoTs { .. } => 0x09,
            SubM::InfoSrc { .. } => 0x0c,
            SubM::InfoDst { .. } => 0x0e,
            SubM::InfoReply { .. } => 0x0f,
            SubM::NackFrag { .. } => 0x12,
            SubM::HeartbeatFrag { .. } => 0x13,
            SubM::Data { .. } => 0x15,
            SubM::DataFrag { .. } => 0x16,
        }
    }

    /// flags octet without the endianness bit
    pub fn flags(&self) -> u8 {
        let b = |x: bool, bit: u8| if x { 1u8 << bit } else { 0 };
        match self {
            SubM::Data { q, d, k, n, .. } => b(*q, 1) | b(*d, 2) | b(*k, 3) | b(*n, 4),
            SubM::DataFrag { q, k, n, .. } => b(*q, 1) | b(*k, 2) | b(*n, 3),
            SubM::Heartbeat { fin, live, .. } => b(*fin, 1) | b(*live, 2),
            SubM::AckNack { fin, .. } => b(*fin, 1),
            SubM::InfoTs { invalidate, .. } => b(*invalidate, 1),
            SubM::InfoReply { multicast, .. } => b(*multicast, 1),
            _ => 0,
        }
    }

    /// set offsets of the bitmap-carrying kinds
    pub fn offs(&self) -> Option<&[u8]> {
        match self {
            SubM::Gap { offs, .. } | SubM::AckNack { offs, .. } | SubM::NackFrag { offs, .. } => Some(offs),
            _ => None,
        }
    }

    /// position of the `numBits` field inside the body for bitmap-carrying kinds
    pub fn num_bits_pos(&self) -> Option<usize> {
        match self {
            SubM::AckNack { .. } => Some(4 + 4 + 8),
            SubM::Gap { .. } => Some(4 + 4 + 8 + 8),
            SubM::NackFrag { .. } => Some(4 + 4 + 8 + 4),
            _ => None,
        }
    }

    /// Body size in octets. `num_bits`: the numBits value used by the encoder for bitmap kinds (the
    /// specification lets an encoder choose any value >= highest member offset + 1, <= 256);
    /// `otq`: octetsToInlineQos for DATA / DATA_FRAG (16 / 28 in the minimal layout).
    pub fn body_size(&self, num_bits: Option<u32>, otq: Option<u16>) -> usize {
        let qos_size = |q: bool, qos: &Vec<Par>| {
            if q { qos.iter().map(|p| 4 + p.padded_len()).sum::<usize>() + 4 } else { 0 }
        };
        let words = |offs: &Vec<u8>| {
            let n = num_bits.unwrap_or_else(|| min_num_bits(offs));
            ((n as usize) + 31) / 32
        };
        match self {
            SubM::Data { q, d, k, qos, payload, .. } => {
                4 + otq.unwrap_or(16) as usize
                    + qos_size(*q, qos)
                    + if *d || *k { payload.len as usize } else { 0 }
            }
            SubM::DataFrag { q, qos, payload, .. } => {
                4 + otq.unwrap_or(28) as usize + qos_size(*q, qos) + payload.len as usize
            }
            SubM::Gap { offs, .. } => 4 + 4 + 8 + (8 + 4 + 4 * words(offs)),
            SubM::AckNack { offs, .. } => 4 + 4 + (8 + 4 + 4 * words(offs)) + 4,
            SubM::NackFrag { offs, .. } => 4 + 4 + 8 + (4 + 4 + 4 * words(offs)) + 4,
            SubM::Heartbeat { .. } => 4 + 4 + 8 + 8 + 4,
            SubM::HeartbeatFrag { .. } => 4 + 4 + 8 + 4 + 4,
            SubM::InfoTs { invalidate, .. } => {
                if *invalidate { 0 } else { 8 }
            }
            SubM::InfoDst { .. } => 12,
            SubM::InfoSrc { .. } => 4 + 2 + 2 + 12,
            SubM::InfoReply { multicast, uni, multi } => {
                4 + 24 * uni.len() + if *multicast { 4 + 24 * multi.len() } else { 0 }
            }
            SubM::Pad => 0,
        }
    }

    pub fn min_body_size(&self) -> usize {
        self.body_size(None, None)
    }
}

struct W {
    b: Vec<u8>,
    le: bool,
}

impl W {
    fn u8(&mut self, v: u8) {
        self.b.push(v);
    }
    fn bytes(&mut self, v: &[u8]) {
        self.b.extend_from_slice(v);
    }
    fn u16(&mut self, v: u16) {
        let a = if self.le { v.to_le_bytes() } else { v.to_be_bytes() };
        self.b.extend_from_slice(&a);
    }
    fn u32(&mut self, v: u32) {
        let a = if self.le { v.to_le_bytes() } else { v.to_be_bytes() };
        self.b.extend_from_slice(&a);
    }
    fn i32(&mut self, v: i32) {
        self.u32(v as u32);
    }
    fn sn(&mut self, v: i64) {
        self.i32((v >> 32) as i32);
        self.u32(v as u32);
    }
    fn bitmap(&mut self, offs: &[u8]) {
        let n = min_num_bits(offs);
        self.u32(n);
        let mut words = vec![0u32; ((n + 31) / 32) as usize];
        for o in offs {
            words[(*o / 32) as usize] |= 1u32 << (31 - (*o % 32));
        }
        for w in words {
            self.u32(w);
        }
    }
    fn params(&mut self, qos: &[Par]) {
        for p in qos {
            self.u16(p.pid as u16);
            self.u16(p.padded_len() as u16);
            self.bytes(&p.bytes());
            for _ in p.len as usize..p.padded_len() {
                self.u8(0);
            }
        }
        self.u16(1);
        self.u16(0);
    }
    fn locs(&mut self, l: &[Loc]) {
        self.u32(l.len() as u32);
        for x in l {
            self.i32(x.kind);
            self.u32(x.port);
            self.bytes(&x.addr);
        }
    }
}

/// Reference encoding of the message with every submessage in the chosen endianness.
pub fn encode(m: &MsgM, le: bool) -> Vec<u8> {
    let mut w = W { b: Vec::with_capacity(64), le };
    w.bytes(b"RTPS");
    let (v, vd) = (m.version(), m.vendor());
    w.bytes(&[v.0, v.1, vd.0, vd.1]);
    w.bytes(&m.prefix);
    let last = m.subs.len().saturating_sub(1);
    for (i, s) in m.subs.iter().enumerate() {
        let body = s.min_body_size();
        w.u8(s.id());
        w.u8(s.flags() | if le { 1 } else { 0 });
        if body > 0xffff {
            assert!(i == last, "generator invariant: oversized submessage must be last");
            w.u16(0);
        } else {
            w.u16(body as u16);
        }
        let start = w.b.len();
        match s {
            SubM::Data { q, d, k, reader, writer, sn, qos, payload, .. } => {
                w.u16(0);
                w.u16(16);
                w.bytes(reader);
                w.bytes(writer);
                w.sn(*sn);
                if *q {
                    w.params(qos);
                }
                if *d || *k {
                    w.bytes(&payload.bytes());
                }
            }
            SubM::DataFrag { q, reader, writer, sn, frag_start, frags, frag_size, data_size, qos, payload, .. } => {
                w.u16(0);
                w.u16(28);
                w.bytes(reader);
                w.bytes(writer);
                w.sn(*sn);
                w.u32(*frag_start);
                w.u16(*frags);
                w.u16(*frag_size);
                w.u32(*data_size);
                if *q {
                    w.params(qos);
                }
                w.bytes(&payload.bytes());
            }
            SubM::Gap { reader, writer, start, base, offs } => {
                w.bytes(reader);
                w.bytes(writer);
                w.sn(*start);
                w.sn(*base);
                w.bitmap(offs);
            }
            SubM::AckNack { reader, writer, base, offs, count, .. } => {
                w.bytes(reader);
                w.bytes(writer);
                w.sn(*base);
                w.bitmap(offs);
                w.i32(*count);
            }
            SubM::NackFrag { reader, writer, sn, base, offs, count } => {
                w.bytes(reader);
                w.bytes(writer);
                w.sn(*sn);
                w.u32(*base);
                w.bitmap(offs);
                w.i32(*count);
            }
            SubM::Heartbeat { reader, writer, first, last, count, .. } => {
                w.bytes(reader);
                w.bytes(writer);
                w.sn(*first);
                w.sn(*last);
                w.i32(*count);
            }
            SubM::HeartbeatFrag { reader, writer, sn, last_frag, count } => {
                w.bytes(reader);
                w.bytes(writer);
                w.sn(*sn);
                w.u32(*last_frag);
                w.i32(*count);
            }
            SubM::InfoTs { invalidate, sec, frac } => {
                if !*invalidate {
                    w.u32(*sec);
                    w.u32(*frac);
                }
            }
            SubM::InfoDst { prefix } => w.bytes(prefix),
            SubM::InfoSrc { version, vendor, prefix } => {
                w.u32(0);
                w.bytes(&[version.0, version.1, vendor.0, vendor.1]);
                w.bytes(prefix);
            }
            SubM::InfoReply { multicast, uni, multi } => {
                w.locs(uni);
                if *multicast {
                    w.locs(multi);
                }
            }
            SubM::Pad => {}
        }
        assert_eq!(w.b.len() - start, body, "reference encoder and size calculator disagree for {}", s.kind());
    }
    w.b
}
